add("C09", "DESIGN.md §5 C09",
    "Bounded symbolic check (all 2^32 flag words and state values) of the state/flag helper laws the lifecycle queries rely on; the keeper transition harnesses are added on top of it as they are built.",
    "Only part (c) of the design (flag/state helper laws) so far; keeper transitions pending.")
add("C16", "DESIGN.md §5 C16",
    "DecodeMessage is executed symbolically for every type prefix and every value json.Unmarshal can hand back (nil-able pointers, 0..2 slice elements, arbitrary short strings): every implicit and explicit panic site on the path must be unreachable, and a message is returned only for the six defined types with the matching type. Counterexamples are replayed as real JSON frames against the real package.",
    "JSON text level, BLS validation (cgo) and uuid parsing are stubs by contract; string lengths ≤4 (quick) plus the exact fixed-size lengths (thorough).")
add("C19", "DESIGN.md §5 C19",
    "Layout lemmas (flat-key injectivity, scan-prefix isolation, index/data disjointness, metadata round trip) for every pair of buckets of depth ≤2|3 over an adversarial name set with fully symbolic binary keys; single-operation map semantics (Put/Get/Delete/Clear/GetByPrefix) from an arbitrary store content; Update/View commit/rollback discipline under symbolic faults.",
    "goleveldb is replaced by a byte-string map model (T3); names from a candidate set; key lengths ≤3|5.")
add("C20", "DESIGN.md §5 C20",
    "The access-control closure and handler are executed for every 4/16-byte remote IP, whitelists of ≤2 parsed IPs with/without '*', and every subset of LAN switches: allow ⇒ a stated reason, deny ⇒ 403 and inner handler not invoked, configured origins are served, malformed addresses denied.",
    "ResolveTCPAddr/ParseIP/IP.String by contract; amount rendering and binding-target parts pending.")
NA["C17"] = "delivery/ordering/shutdown across ≥6 kinds of goroutines over channels, contexts, a worker pool and TCP connections: no encoding of the Go scheduler, net.Conn or timers is within reach of SSA-to-SMT symbolic execution here, and fractal/ has no single lock that would make run-to-block sequentialisation sound (DESIGN.md §6)"
add("C18", "DESIGN.md §5 C18",
    "CKDpriv and CKDpub are executed symbolically against BIP32 written out in the harness, for every chain code, index (full uint32 range), depth and private key of stored length 32/31/30 bytes: HMAC key and data, child key = (IL+k) mod n, chain code, depth, fingerprint, child number, hardened-from-public refusal, and Neuter(CKDpriv) = CKDpub(Neuter). Counterexamples are replayed with real HMAC-SHA512/secp256k1 against a reference derivation.",
    "HMAC/Hash160 are uninterpreted functions; the curve subgroup is modelled in discrete-log form (isomorphic group); big.Int as 264-bit vectors. Text and mnemonic round trips pending.")
