#!/usr/bin/env python3
"""Regenerates /verif/MANIFEST.json from the table below (kept next to the harness configs)."""
import json, os, subprocess
V = os.path.dirname(os.path.dirname(os.path.abspath(__file__)))
props = [json.loads(l) for l in open(os.path.join(V, 'properties.jsonl'))]
ids = [p['id'] for p in props]

TRUST = "Trusted: go/ssa front end, the gosmt encoder in /verif/engine, the SMT solvers (z3 5.1.0 incremental session deciding; harnesses marked oneshot send every obligation to z3 5.1.0, z3 4.8.12 and cvc5 1.0 side by side and take the first definite verdict), the stub contracts listed in the evidence file's assumptions. "

CHECKS = {
 # id: (design_ref, claim text, note)
}
def add(pid, ref, text, note):
    CHECKS[pid] = (ref, text, note)

NA = {}

exec(open(os.path.join(V, 'tools', 'claims.py')).read())

checks = []
for pid in ids:
    if pid not in CHECKS:
        continue
    ref, text, note = CHECKS[pid]
    checks.append({
        "property_id": pid,
        "quick_cmd": f"bin/vcheck -p {pid} -tier quick",
        "thorough_cmd": f"bin/vcheck -p {pid} -tier thorough",
        "evidence_file": f"evidence/{pid}.json",
        "replay_cmd_template": f"bin/vcheck -p {pid} -replay {{path}}",
        "engine": "gosmt",
        "level_claimed": {"category": "model_checking", "text": text, "design_ref": ref},
        "level_note": TRUST + note,
        "technique": "bounded symbolic execution of the real Go SSA into SMT (bit-vectors), obligations decided by an SMT solver (z3 5.1.0, or the z3 5.1.0 / z3 4.8.12 / cvc5 portfolio for the wallet harnesses; unsat = holds within the stated bounds; sat = counterexample, replayed natively where a driver exists)",
    })
na = [{"property_id": pid, "reason": NA.get(pid, "check not built yet (construction in progress, see DESIGN.md section 10)")} for pid in ids if pid not in CHECKS]
hooks_commits = []
m = {
 "version": 1,
 "setup_cmd": "cd engine && GOFLAGS=-mod=mod GOPROXY=off GOSUMDB=off GOTOOLCHAIN=local go build -o ../bin/vcheck .",
 "hooks": {"guard": "verif", "enable": "harness files carry //go:build verif and are injected into the target package by go/packages Overlay (symbolic side) or go test -overlay -tags verif (native replay); nothing guarded is committed to /repo",
           "baseline_off_cmd": "cd /repo && GOFLAGS=-mod=mod GOPROXY=off GOSUMDB=off GOTOOLCHAIN=local go test -vet=off -count=1 -timeout 25m ./...",
           "source_commits": hooks_commits, "add_only": True},
 "engines": [{"name": "gosmt", "path": "engine", "serves_properties": sorted(CHECKS), "kind_free_text": "Go SSA (x/tools v0.29.0) -> SMT-LIB2 bounded symbolic executor with fork/merge at post-dominators, loop unwinding with unwinding assertions, heap/slice/map/interface/channel/mutex models; z3 / cvc5 back ends; native replay of counterexamples via go test -overlay"}],
 "checks": checks,
 "notes": "exit 0 = all obligations discharged (or only KNOWN-FINDING lines); exit 1 = VIOLATION; exit 2 = inconclusive (timeout/unknown, unwinding assertion failed, harness no longer compiles against the tree, counterexample did not reproduce). See DESIGN.md.",
 "not_applicable": na,
}
json.dump(m, open(os.path.join(V, 'MANIFEST.json'), 'w'), indent=1)
print("checks:", sorted(CHECKS), "na:", [x['property_id'] for x in na])
