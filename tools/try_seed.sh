#!/bin/bash
# usage: try_seed.sh <property> <patch.diff> [tier]   -- applies the patch to /repo, runs the check, reverts
P=$1; PATCH=$2; TIER=${3:-quick}
cd /repo || exit 2
git apply --check "$PATCH" || { echo "PATCH DOES NOT APPLY"; exit 2; }
git apply "$PATCH"
cd /verif
timeout 1100 bin/vcheck -p $P -tier $TIER > /tmp/try_seed.out 2>&1
RC=$?
grep -E "^VIOLATION|^KNOWN|^INCONCLUSIVE|tier=" /tmp/try_seed.out | cut -c1-260 | head -12
echo "exit=$RC"
cd /repo && git checkout -- . && git status --short | head -3
