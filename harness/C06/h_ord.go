//go:build verif

package keystore

import (
	"bytes"

	"github.com/massnetorg/mass-core/pocec"
	"massnet.org/mass/poc/wallet/db"
)

// vsRefKey: the public key BIP32 assigns to (external branch, index) of the keystore, computed by the real hdkeychain
// code from the account public key (independent of the locked/unlocked derivation route taken by the wallet).
func vsRefKey(a *AddrManager, index uint32) []byte {
	br, err := a.acctInfo.acctKeyPub.Child(ExternalBranch)
	vsAssume(err == nil)
	ck, err := br.Child(index)
	vsAssume(err == nil)
	pk, err := ck.ECPubKey()
	vsAssume(err == nil)
	return pk.SerializeCompressed()
}

// vsStoredExt: the external child counter as persisted in the keystore bucket (read through the real db API).
func vsStoredExt(a *AddrManager) uint32 {
	var ex uint32
	db.View(vsDBT{}, func(tx db.ReadTransaction) error {
		_, ex, _ = fetchChildNum(tx.FetchBucket(a.storage))
		return nil
	})
	return ex
}

// VsH_Ordinals: two issuances (and a third after a restart) from a fresh wallet, with the wallet locked, unlocked, or
// unlocked in between, and with ordinary external/internal address generation interleaved.
func VsH_Ordinals() {
	kmc, a, pub, priv, _ := vsNewWallet()
	mode := vsFork(vsBound("modes"), "mode") // quick: the locked (public-derivation) routes 0..2; thorough: all five
	base := uint32(0)
	switch mode {
	case 3:
		vsAssume(kmc.Unlock(priv) == nil)
	case 1: // an external address was handed out before: the ordinal continues after it
		_, err := kmc.NextAddresses(a.keystoreName, false, 1)
		vsAssume(err == nil)
		base = 1
	case 2: // internal addresses do not consume external ordinals
		_, err := kmc.NextAddresses(a.keystoreName, true, 1)
		vsAssume(err == nil)
	}
	pk1, o1, err := kmc.GenerateNewPublicKey()
	vsAssert(err == nil && pk1 != nil, "issuance-succeeds")
	vsAssume(err == nil && pk1 != nil)
	vsAssert(o1 == base, "first-ordinal-is-the-number-of-external-keys-issued-before")
	vsAssume(o1 == base)
	k1 := pk1.SerializeCompressed()
	vsAssert(bytes.Equal(k1, vsRefKey(a, o1)), "key-is-the-external-child-at-its-ordinal")
	vsAssert(vsStoredExt(a) == o1+1, "counter-persisted-past-the-issued-ordinal")
	g1, ok1 := kmc.GetPublicKeyOrdinal(pk1)
	vsAssert(ok1 && g1 == o1, "lookup-returns-the-issued-ordinal")
	if mode == 4 {
		vsAssume(kmc.Unlock(priv) == nil)
	}
	pk2, o2, err := kmc.GenerateNewPublicKey()
	vsAssert(err == nil && pk2 != nil, "second-issuance-succeeds")
	vsAssume(err == nil && pk2 != nil)
	vsAssert(o2 == o1+1, "ordinals-are-consecutive")
	vsAssume(o2 == o1+1)
	k2 := pk2.SerializeCompressed()
	vsAssert(bytes.Equal(k2, vsRefKey(a, o2)), "second-key-is-the-external-child-at-its-ordinal")
	vsAssert(!bytes.Equal(k1, k2), "a-key-is-never-issued-twice")
	g1, ok1 = kmc.GetPublicKeyOrdinal(pk1)
	g2, ok2 := kmc.GetPublicKeyOrdinal(pk2)
	vsAssert(ok1 && g1 == o1 && ok2 && g2 == o2, "lookups-stay-stable")

	// restart: a new manager over the same store
	kmc2, err := NewKeystoreManagerForPoC(vsDBT{}, pub, vsParams)
	vsAssert(err == nil, "reopen-succeeds")
	vsAssume(err == nil)
	p1, _ := pocec.ParsePubKey(k1, pocec.S256())
	p2, _ := pocec.ParsePubKey(k2, pocec.S256())
	g1, ok1 = kmc2.GetPublicKeyOrdinal(p1)
	g2, ok2 = kmc2.GetPublicKeyOrdinal(p2)
	vsAssert(ok1 && g1 == o1 && ok2 && g2 == o2, "lookups-survive-restart")
	pk3, o3, err := kmc2.GenerateNewPublicKey()
	vsAssert(err == nil && pk3 != nil, "issuance-after-restart-succeeds")
	vsAssume(err == nil && pk3 != nil)
	vsAssert(o3 == o2+1, "ordinals-continue-after-restart")
	k3 := pk3.SerializeCompressed()
	a2 := kmc2.managedKeystores[a.keystoreName]
	vsAssume(a2 != nil)
	vsAssert(bytes.Equal(k3, vsRefKey(a2, o3)), "key-after-restart-is-the-external-child-at-its-ordinal")
	vsAssert(a2.acctInfo.acctKeyPub.String() == a.acctInfo.acctKeyPub.String(), "reloaded-keystore-has-the-same-account-key")
	_ = k2
	vsReach("ordinals-end")
}

// VsH_OrdinalFault: a storage fault at the k-th mutating store call (or at commit) of an issuance. A failed issuance
// consumes no ordinal and leaves nothing behind, in memory or in the store: the next issuance gets the same ordinal and
// the key at it, and the reopened wallet agrees.
func VsH_OrdinalFault() {
	kmc, a, pub, _, _ := vsNewWallet()
	pre := vsStore.root.clone()
	vsStore.ops = 0
	vsStore.faultAt = vsFork(5, "fault") + 1
	pk0, o0, err := kmc.GenerateNewPublicKey()
	vsStore.faultAt = 0
	if err == nil {
		vsAssert(pk0 != nil && o0 == 0, "unfaulted-issuance-gets-ordinal-zero")
		vsReach("fault-not-hit")
		return
	}
	vsAssert(vsBktEqual(vsStore.root, pre), "failed-issuance-leaves-the-store-unchanged")
	vsAssert(vsStoredExt(a) == 0, "failed-issuance-does-not-advance-the-persisted-counter")
	vsAssert(len(a.addrs) == 0, "failed-issuance-leaves-no-address-in-memory")
	pk1, o1, err := kmc.GenerateNewPublicKey()
	vsAssert(err == nil && pk1 != nil, "issuance-after-a-failed-one-succeeds")
	vsAssume(err == nil && pk1 != nil)
	vsAssert(o1 == 0, "failed-issuance-consumes-no-ordinal")
	vsAssume(o1 == 0)
	k1 := pk1.SerializeCompressed()
	vsAssert(bytes.Equal(k1, vsRefKey(a, 0)), "key-after-a-failed-issuance-is-the-child-at-its-ordinal")
	pk2, o2, err := kmc.GenerateNewPublicKey()
	vsAssert(err == nil && pk2 != nil && o2 == 1, "ordinals-stay-consecutive-after-a-failed-issuance")
	kmc2, err := NewKeystoreManagerForPoC(vsDBT{}, pub, vsParams)
	vsAssume(err == nil)
	p1, _ := pocec.ParsePubKey(k1, pocec.S256())
	g1, ok1 := kmc2.GetPublicKeyOrdinal(p1)
	vsAssert(ok1 && g1 == 0, "lookup-after-restart-agrees")
	vsReach("fault-end")
}
