//go:build verif

package keystore

import (
	"bytes"

	"github.com/massnetorg/mass-core/pocec"
	"massnet.org/mass/poc/wallet/db"
)

// vsRefKey: the public key BIP32 assigns to (external branch, index) of the keystore, computed by the real hdkeychain
// code from the account public key (independent of the locked/unlocked derivation route taken by the wallet).
func vsRefKey(a *AddrManager, index uint32) []byte {
	br, err := a.acctInfo.acctKeyPub.Child(ExternalBranch)
	vsAssume(err == nil)
	ck, err := br.Child(index)
	vsAssume(err == nil)
	pk, err := ck.ECPubKey()
	vsAssume(err == nil)
	return pk.SerializeCompressed()
}

// vsStoredExt: the external child counter as persisted in the keystore bucket (read through the real db API).
func vsStoredExt(a *AddrManager) uint32 {
	var ex uint32
	db.View(vsDBT{}, func(tx db.ReadTransaction) error {
		_, ex, _ = fetchChildNum(tx.FetchBucket(a.storage))
		return nil
	})
	return ex
}

// VsH_Ordinals: two issuances (and a third after a restart) from a fresh wallet, with the wallet locked, unlocked, or
// unlocked in between, and with ordinary external/internal address generation interleaved.
func VsH_Ordinals() {
	kmc, a, pub, priv, _ := vsNewWallet()
	mode := vsFork(5, "mode")
	base := uint32(0)
	switch mode {
	case 1:
		vsAssume(kmc.Unlock(priv) == nil)
	case 3: // an external address was handed out before: the ordinal continues after it
		_, err := kmc.NextAddresses(a.keystoreName, false, 1)
		vsAssume(err == nil)
		base = 1
	case 4: // internal addresses do not consume external ordinals
		_, err := kmc.NextAddresses(a.keystoreName, true, 1)
		vsAssume(err == nil)
	}
	pk1, o1, err := kmc.GenerateNewPublicKey()
	vsAssert(err == nil && pk1 != nil, "issuance-succeeds")
	vsAssume(err == nil && pk1 != nil)
	vsAssert(o1 == base, "first-ordinal-is-the-number-of-external-keys-issued-before")
	vsAssume(o1 == base)
	k1 := pk1.SerializeCompressed()
	vsAssert(bytes.Equal(k1, vsRefKey(a, o1)), "key-is-the-external-child-at-its-ordinal")
	vsAssert(vsStoredExt(a) == o1+1, "counter-persisted-past-the-issued-ordinal")
	g1, ok1 := kmc.GetPublicKeyOrdinal(pk1)
	vsAssert(ok1 && g1 == o1, "lookup-returns-the-issued-ordinal")
	if mode == 2 {
		vsAssume(kmc.Unlock(priv) == nil)
	}
	pk2, o2, err := kmc.GenerateNewPublicKey()
	vsAssert(err == nil && pk2 != nil, "second-issuance-succeeds")
	vsAssume(err == nil && pk2 != nil)
	vsAssert(o2 == o1+1, "ordinals-are-consecutive")
	vsAssume(o2 == o1+1)
	k2 := pk2.SerializeCompressed()
	vsAssert(bytes.Equal(k2, vsRefKey(a, o2)), "second-key-is-the-external-child-at-its-ordinal")
	vsAssert(!bytes.Equal(k1, k2), "a-key-is-never-issued-twice")
	g1, ok1 = kmc.GetPublicKeyOrdinal(pk1)
	g2, ok2 := kmc.GetPublicKeyOrdinal(pk2)
	vsAssert(ok1 && g1 == o1 && ok2 && g2 == o2, "lookups-stay-stable")

	// restart: a new manager over the same store
	kmc2, err := NewKeystoreManagerForPoC(vsDBT{}, pub, vsParams)
	vsAssert(err == nil, "reopen-succeeds")
	vsAssume(err == nil)
	p1, _ := pocec.ParsePubKey(k1, pocec.S256())
	p2, _ := pocec.ParsePubKey(k2, pocec.S256())
	g1, ok1 = kmc2.GetPublicKeyOrdinal(p1)
	g2, ok2 = kmc2.GetPublicKeyOrdinal(p2)
	vsAssert(ok1 && g1 == o1 && ok2 && g2 == o2, "lookups-survive-restart")
	pk3, o3, err := kmc2.GenerateNewPublicKey()
	vsAssert(err == nil && pk3 != nil, "issuance-after-restart-succeeds")
	vsAssume(err == nil && pk3 != nil)
	vsAssert(o3 == o2+1, "ordinals-continue-after-restart")
	k3 := pk3.SerializeCompressed()
	vsAssert(!bytes.Equal(k3, k1) && !bytes.Equal(k3, k2), "no-reuse-after-restart")
	vsReach("ordinals-end")
}
