//go:build verif

package massdb_v1

import (
	"io"
	"os"

	"github.com/massnetorg/mass-core/poc/pocutil"
	"github.com/massnetorg/mass-core/pocec"
	"github.com/shirou/gopsutil/mem"
)

// ---- file model: a 128-byte header image and the proof-data region (offset 4096..) as byte arrays -------------
// Writes are applied immediately (no crash inside this harness); offsets and lengths may be symbolic.

type vsFile struct {
	hdr  []byte
	data []byte
	pos  int64
	syncs int
}

var vsFiles = map[*os.File]*vsFile{}

func vsNewFile(dataLen int) *os.File {
	f := &os.File{}
	vsFiles[f] = &vsFile{hdr: make([]byte, 128), data: make([]byte, dataLen)}
	return f
}

func vsFileWriteAt(f *os.File, b []byte, off int64) (int, error) {
	vf := vsFiles[f]
	for i := range b {
		o := off + int64(i)
		if o < PosProofData {
			if o >= 0 && o < int64(len(vf.hdr)) {
				vf.hdr[o] = b[i]
			}
		} else if o-PosProofData < int64(len(vf.data)) {
			vf.data[o-PosProofData] = b[i]
		} else {
			return i, io.ErrShortWrite
		}
	}
	return len(b), nil
}

func vsFileReadAt(f *os.File, b []byte, off int64) (int, error) {
	if vsSparse {
		vsSparseOff, vsSparseLen = off, len(b)
		vsSparseData = vsNondetBytes(len(b), "entry")
		copy(b, vsSparseData)
		return len(b), nil
	}
	vf := vsFiles[f]
	for i := range b {
		o := off + int64(i)
		if o < PosProofData {
			if o >= 0 && o < int64(len(vf.hdr)) {
				b[i] = vf.hdr[o]
			} else {
				b[i] = 0
			}
		} else if o-PosProofData < int64(len(vf.data)) {
			b[i] = vf.data[o-PosProofData]
		} else {
			return i, io.EOF
		}
	}
	return len(b), nil
}

func vsFileSync(f *os.File) error { vsFiles[f].syncs++; return nil }

// ---- proof-of-capacity hash as a table: concrete pseudo-random values with a few arbitrary (symbolic) entries ----

var vsPTable []pocutil.PoCValue

func vsP(x pocutil.PoCValue, bl int, pkh pocutil.Hash) pocutil.PoCValue { return vsPTable[x] }

func vsPBswitch(x []byte, bl int, pkh pocutil.Hash) pocutil.PoCValue {
	if vsSparse {
		return vsPB(x, bl, pkh)
	}
	return vsPTable[x[0]]
}

func vsFBswitch(x, xp []byte, bl int, pkh pocutil.Hash) pocutil.PoCValue {
	if vsSparse {
		return vsFBsym(x, xp, bl, pkh)
	}
	return vsFB(x, xp, bl, pkh)
}

func vsMakeTable(volume int, nsym int) {
	vsPTable = make([]pocutil.PoCValue, volume)
	s := uint32(12345)
	for i := range vsPTable {
		s = s*1103515245 + 12345
		vsPTable[i] = pocutil.PoCValue((s >> 16) % uint32(volume))
	}
	for k := 0; k < nsym; k++ {
		v := pocutil.PoCValue(vsNondetU8("P.sym"))
		vsAssume(v < pocutil.PoCValue(volume))
		vsPTable[(k*17+3)%volume] = v
	}
}

// ---- memory: contract of makeAvailableMemory at the scale of the harness ---------------------------------------
// The cache gets the required size, or any smaller size of at least vsBound("mincache") records (in production the
// lower limit is 256 MiB, i.e. tens of millions of records; the arithmetic of makeAvailableMemory itself is checked
// separately at full width in VsH_MemContract), or the call fails.

var vsMemPassThrough bool
var vsAvailable uint64

// contract of gopsutil's mem.VirtualMemory: an arbitrary amount of available memory
func vsVirtualMemory() (*mem.VirtualMemoryStat, error) {
	return &mem.VirtualMemoryStat{Available: vsAvailable}, nil
}

// VsH_MemContract: the real makeAvailableMemory against the contract the plot harnesses assume for it: on success
// the cache has exactly the granted size and is freshly zeroed (whatever it held before), the granted size is the
// requested one when memory suffices; with less than the minimum available and a request above it, the call fails.
func VsH_MemContract() {
	vsMemPassThrough = true
	pre := vsFork(3, "precache") // previous window's cache: none, same size as the new request, another size
	req := uint64(1 + vsFork(6, "required"))
	cache := NewMemCache(0)
	if pre == 1 {
		cache.Update(req)
	} else if pre == 2 {
		cache.Update(req + 2)
	}
	for i := range cache.data {
		cache.data[i] = vsNondetU8("dirty") // records of the previous window
	}
	vsAvailable = vsNondetU64("available")
	hm := &HashMapA{}
	err := hm.makeAvailableMemory(cache, req)
	if vsAvailable >= req {
		vsAssert(err == nil, "enough-memory-never-fails")
	}
	if err == nil {
		vsAssert(uint64(cache.Len()) == req && uint64(len(cache.data)) == req, "granted-size-is-the-request-when-memory-suffices")
		for i := range cache.data {
			vsAssert(cache.data[i] == 0, "window-cache-starts-zeroed")
		}
		vsReach("granted")
	} else {
		vsAssert(vsAvailable < req && vsAvailable < minPrePlotMem, "failure-only-below-minimum-memory")
		vsReach("refused")
	}
	vsMemPassThrough = false
}

var vsFailAt int // window at which the memory request fails (0: never)
var vsSizes = []int{33, 24, 17} // cache sizes (in records) the environment may grant instead of the requested size
var vsWindows int
var vsLastRequired uint64
var vsRecordSize int

func vsMakeAvailableMemory(cache *MemCache, requiredMem, maxMem, minMem uint64) error {
	if vsMemPassThrough {
		return makeAvailableMemory(cache, requiredMem, maxMem, minMem) // the real function (contract harness)
	}
	vsWindows++
	if vsWindows > 1 {
		// progress of the window loop: the amount still to be produced strictly decreases
		vsAssert(requiredMem < vsLastRequired, "window-loop-advances-every-iteration")
		vsAssume(requiredMem < vsLastRequired)
	}
	vsLastRequired = requiredMem
	if vsWindows == vsFailAt {
		return ErrMemoryNotEnough
	}
	size := requiredMem
	if vsResumeFull {
		cache.Update(size)
		return nil
	}
	if vsBound("symwindows") == 1 {
		if vsNondetBool("mem.short") {
			size = vsNondetU64("mem.size")
			vsAssume(size >= uint64(vsBound("mincache")*vsRecordSize) && size < requiredMem)
		}
	} else {
		// case split over a small set of cache sizes (in records): everything requested, or one of the listed sizes
		if k := vsFork(len(vsSizes)+1, "mem.records"); k > 0 {
			size = uint64(vsSizes[k-1])
		}
		size *= uint64(vsRecordSize)
		if size > requiredMem {
			size = requiredMem
		}
	}
	cache.Update(size)
	return nil
}

func vsSlotOfY(y pocutil.PoCValue, bl int, half pocutil.PoCValue) int {
	if y < half {
		return int(y * 2)
	}
	return int(pocutil.FlipValue(y, bl)*2 + 1)
}

// VsH_PrePlotResume: map A generation started from an arbitrary recorded checkpoint c (c = 0: a fresh plot; c > 0: a
// plot resumed after an interruption whose durable data below c is final), for every schedule of window sizes:
// the window loop advances in every iteration, and when prePlotWork returns nil the table region [c, volume) equals the
// construction (slot idx(y) holds the largest x with P(x) = y, or 0), the checkpoint reads volume, and data was
// synced before every checkpoint update.
func VsH_PrePlotResume() {
	bl := vsBound("bl")
	volume := 1 << uint(bl)
	vsRecordSize = pocutil.RecordSize(bl)
	vsMakeTable(volume, vsBound("symhash"))
	vsWindows, vsLastRequired = 0, 0
	vsSizes = []int{33, 24, 17}
	vsResumeFull = false
	vsFailAt = vsFork(4, "mem.failAt")
	f := vsNewFile(volume * vsRecordSize)
	hm := HashMap{data: f, bl: bl, volume: pocutil.PoCValue(volume), offset: LenMetaInfo, step: 1, recordSize: vsRecordSize, pk: &pocec.PublicKey{}}
	mdb := &MassDBV1{HashMapA: &HashMapA{HashMap: hm, half: pocutil.PoCValue(volume / 2)}, bl: bl, pubKey: &pocec.PublicKey{}, stopPlotCh: make(chan struct{})}
	// recorded checkpoint
	var c pocutil.PoCValue
	switch vsFork(3, "resume") {
	case 0:
		c = 0
	case 1:
		c = 1 // what every first completed window leaves behind (startPoint + 1 with startPoint = 0)
	case 2:
		if vsBound("symwindows") == 1 {
			c = pocutil.PoCValue(vsNondetU8("checkpoint"))
			vsAssume(c < pocutil.PoCValue(volume))
		} else {
			c = pocutil.PoCValue([]int{2, 17, 34, 63}[vsFork(4, "checkpoint")])
		}
	}
	mdb.HashMapA.checkpoint = c
	mdb.HashMapA.UpdateCheckpoint()
	// records below the checkpoint are final already (interrupted run wrote and synced them): fill with the construction
	ref := make([]byte, volume)
	for x := 0; x < volume; x++ {
		ref[vsSlotOfY(vsPTable[x], bl, pocutil.PoCValue(volume/2))] = byte(x)
	}
	vf := vsFiles[f]
	for i := 0; i < volume; i++ {
		if pocutil.PoCValue(i) < c {
			vf.data[i] = ref[i]
		}
	}
	cache := NewMemCache(0)
	err := mdb.prePlotWork(cache)
	if err == nil {
		for i := 0; i < volume; i++ {
			vsAssert(vf.data[i] == ref[i], "map-A-equals-the-construction")
		}
		vsAssert(mdb.HashMapA.ReadCheckpoint() == pocutil.PoCValue(volume), "final-checkpoint-is-volume")
		done, _ := mdb.HashMapA.Progress()
		vsAssert(done, "progress-reports-pre-plotted")
		vsReach("preplot-complete")
	} else {
		vsAssert(err == ErrMemoryNotEnough, "only-memory-shortage-fails-preplot")
		// never falsely complete: an aborted run does not record completion
		vsAssert(mdb.HashMapA.ReadCheckpoint() < pocutil.PoCValue(volume), "aborted-preplot-not-recorded-complete")
		vsReach("preplot-aborted")
	}
}

// logging only: the key's serialisation is irrelevant to plotting
func vsSerializeCompressed(p *pocec.PublicKey) []byte { return make([]byte, 33) }
