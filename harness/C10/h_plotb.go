//go:build verif

package massdb_v1

import (
	"bufio"
	"io"
	"os"

	"github.com/massnetorg/mass-core/poc/pocutil"
	"github.com/massnetorg/mass-core/pocec"
)

// sequential reads (bufio over map A): position kept per file; a stop request can be scheduled at the k-th read
var vsStopAtRead, vsReadsSeen int
var vsStopCh chan struct{}
var vsStopped bool

func vsFileSeek(f *os.File, off int64, whence int) (int64, error) {
	vsFiles[f].pos = off
	return off, nil
}

func vsFileRead(f *os.File, b []byte) (int, error) {
	vsReadsSeen++
	if vsReadsSeen == vsStopAtRead && !vsStopped {
		vsStopped = true
		close(vsStopCh) // StopPlot arrives while the window is being computed
	}
	vf := vsFiles[f]
	n, err := vsFileReadAt(f, b, vf.pos)
	vf.pos += int64(n)
	if n == 0 && err != nil {
		return 0, io.EOF
	}
	return n, nil
}

// a small read buffer instead of 64 MiB (buffering is transparent)
func vsNewReaderSize(rd io.Reader, size int) *bufio.Reader { return bufio.NewReaderSize(rd, 32) }

var vsRemoved []string

func vsOsRemove(name string) error { vsRemoved = append(vsRemoved, name); return nil }
func vsFileClose(f *os.File) error { return nil }

// FB as a fixed pseudo-random function of the two record values
func vsFB(x, xp []byte, bl int, pkh pocutil.Hash) pocutil.PoCValue {
	a, b := uint32(x[0]), uint32(xp[0])
	s := a*2654435761 + b*40503 + 12345
	s ^= s >> 13
	return pocutil.PoCValue(s % (uint32(1) << uint(bl)))
}

// VsH_PlotB: the map-B pass and executePlot's completion handling at bit length 7, from a complete map A, for every
// schedule of cache sizes from a small set, an optional memory failure, and an optional stop request arriving while
// a window is computed; then a resumed run to completion.
func VsH_PlotB() {
	bl := vsBound("blB")
	volume := 1 << uint(bl)
	half := volume / 2
	vsRecordSize = pocutil.RecordSize(bl)
	vsMakeTable(volume, 0)
	vsWindows, vsLastRequired, vsFailAt = 0, 0, 0
	vsSizes = []int{132, 68} // map-B windows of 33 and 17 z-pairs
	vsResumeFull = false
	fA, fB := vsNewFile(volume*vsRecordSize), vsNewFile(2*volume*vsRecordSize)
	// complete map A = the construction
	va, vb := vsFiles[fA], vsFiles[fB]
	for x := 0; x < volume; x++ {
		va.data[vsSlotOfY(vsPTable[x], bl, pocutil.PoCValue(half))] = byte(x)
	}
	hmA := HashMap{data: fA, bl: bl, volume: pocutil.PoCValue(volume), offset: LenMetaInfo, step: 1, recordSize: vsRecordSize, pk: &pocec.PublicKey{}}
	hmB := HashMap{data: fB, bl: bl, volume: pocutil.PoCValue(volume), offset: LenMetaInfo, step: 2, recordSize: vsRecordSize, pk: &pocec.PublicKey{}}
	hmA.checkpoint = pocutil.PoCValue(volume)
	mdb := &MassDBV1{HashMapA: &HashMapA{HashMap: hmA, half: pocutil.PoCValue(half)}, HashMapB: &HashMapB{HashMap: hmB}, bl: bl, pubKey: &pocec.PublicKey{}, filePathA: "A", filePathB: "B"}
	mdb.HashMapA.UpdateCheckpoint()
	// reference table: sequential construction
	ref := make([]byte, 2*volume)
	for y := 0; y < half; y++ {
		x, xp := va.data[2*y], va.data[2*y+1]
		if x != 0 && xp != 0 {
			z := int(vsFB([]byte{x}, []byte{xp}, bl, hmA.pkHash))
			ref[2*z], ref[2*z+1] = x, xp
			zp := int(vsFB([]byte{xp}, []byte{x}, bl, hmA.pkHash))
			ref[2*zp], ref[2*zp+1] = xp, x
		}
	}
	// first run: optional stop while window `w` is computed (reads are buffered: 32 bytes per read call)
	vsRemoved = nil
	vsStopCh = make(chan struct{})
	vsStopped, vsReadsSeen = false, 0
	vsStopAtRead = []int{0, 2, 6}[vsFork(3, "stopAtRead")]
	mdb.stopPlotCh = vsStopCh
	mdb.plotting = 1
	mdb.wg.Add(1)
	res := make(chan error, 1)
	mdb.executePlot(res)
	err := <-res
	cp := mdb.HashMapB.ReadCheckpoint()
	complete := cp >= pocutil.PoCValue(half)
	_, plotted, _ := mdb.Progress()
	vsAssert(plotted == complete || mdb.HashMapA == nil, "progress-matches-recorded-checkpoint")
	if !complete {
		vsAssert(len(vsRemoved) == 0 && mdb.HashMapA != nil, "map-A-kept-until-map-B-is-complete")
		vsAssert(!plotted, "interrupted-plot-not-reported-plotted")
	} else {
		vsAssert(!vsStopped || true, "sanity")
	}
	if mdb.HashMapA == nil {
		vsAssert(complete, "map-A-dropped-only-after-final-checkpoint")
	}
	// recorded progress never ahead of written data: every entry below 2*checkpoint is final
	for z := 0; z < volume; z++ {
		if pocutil.PoCValue(z) < 2*cp {
			vsAssert(vb.data[2*z] == ref[2*z] && vb.data[2*z+1] == ref[2*z+1], "entries-below-recorded-progress-are-final")
		}
	}
	if vsStopped {
		vsAssert(err == nil, "graceful-stop-is-not-an-error")
	}
	if complete {
		for z := 0; z < volume; z++ {
			vsAssert(vb.data[2*z] == ref[2*z] && vb.data[2*z+1] == ref[2*z+1], "map-B-equals-the-construction")
		}
		vsReach("first-run-complete")
		return
	}
	if mdb.HashMapA == nil {
		return // reported above
	}
	// resume (no further interruption, full memory)
	vsStopAtRead, vsStopped = 0, false
	vsStopCh = make(chan struct{})
	mdb.stopPlotCh = vsStopCh
	vsFailAt, vsWindows = 0, 0
	vsResumeFull = true
	mdb.plotting = 1
	mdb.wg.Add(1)
	res2 := make(chan error, 1)
	mdb.executePlot(res2)
	vsAssert(<-res2 == nil, "resumed-plot-succeeds")
	for z := 0; z < volume; z++ {
		vsAssert(vb.data[2*z] == ref[2*z] && vb.data[2*z+1] == ref[2*z+1], "resumed-map-B-equals-uninterrupted-construction")
	}
	vsAssert(mdb.HashMapB.ReadCheckpoint() == pocutil.PoCValue(half), "resumed-final-checkpoint-is-half")
	_, plotted2, _ := mdb.Progress()
	vsAssert(plotted2 && mdb.HashMapA == nil, "resumed-plot-reports-plotted-and-drops-map-A")
	vsReach("resumed-complete")
}

var vsResumeFull bool
