//go:build verif

package massdb_v1

import (
	"bytes"

	"github.com/massnetorg/mass-core/poc/pocutil"
	"github.com/massnetorg/mass-core/pocec"
)

// sparse file mode for production bit lengths: a read returns arbitrary bytes (any table content) and records where
var vsSparse bool
var vsSparseOff int64
var vsSparseLen int
var vsSparseData []byte

// PB as an uninterpreted function of the (normalised) record bytes
func vsPB(x []byte, bl int, pkh pocutil.Hash) pocutil.PoCValue {
	var b [8]byte
	copy(b[:], x)
	pocutil.NormalizePoCBytes(b[:], bl)
	v := vsUFU64("PB", uint64(b[0])|uint64(b[1])<<8|uint64(b[2])<<16|uint64(b[3])<<24|uint64(b[4])<<32)
	return pocutil.PoCValue(v) & pocutil.PoCValue((uint64(1)<<uint(bl))-1)
}

func vsFBsym(x, xp []byte, bl int, pkh pocutil.Hash) pocutil.PoCValue {
	var a, b [8]byte
	copy(a[:], x)
	copy(b[:], xp)
	pocutil.NormalizePoCBytes(a[:], bl)
	pocutil.NormalizePoCBytes(b[:], bl)
	v := vsUFU64("FB", uint64(a[0])|uint64(a[1])<<8|uint64(a[2])<<16|uint64(a[3])<<24|uint64(a[4])<<32, uint64(b[0])|uint64(b[1])<<8|uint64(b[2])<<16|uint64(b[3])<<24|uint64(b[4])<<32)
	return pocutil.PoCValue(v) & pocutil.PoCValue((uint64(1)<<uint(bl))-1)
}

// VsH_GetProof: proof serving at the production bit lengths over an arbitrary table: the entry addressed is exactly
// the one for the challenge's prefix, and a proof is returned iff that entry verifies (for every hash function).
func VsH_GetProof() {
	vsSparse = true
	bl := []int{24, 26, 28, 30, 32, 34, 36, 38, 40}[vsFork(9, "bl")]
	rs := pocutil.RecordSize(bl)
	f := vsNewFile(0)
	hmB := HashMap{data: f, bl: bl, volume: pocutil.PoCValue(1) << uint(bl), offset: LenMetaInfo, step: 2, recordSize: rs, pk: &pocec.PublicKey{}}
	mdb := &MassDBV1{HashMapB: &HashMapB{HashMap: hmB}, bl: bl, pubKey: &pocec.PublicKey{}}
	var challenge pocutil.Hash
	copy(challenge[:], vsNondetBytes(32, "challenge"))
	proof, err := mdb.GetProof(challenge, false)
	z := pocutil.CutHash(challenge, bl)
	vsAssert(vsSparseOff == int64(LenMetaInfo)+int64(z)*int64(rs)*2 && vsSparseLen == 2*rs, "reads-exactly-the-entry-of-the-challenge-prefix")
	x, xp := vsSparseData[:rs], vsSparseData[rs:2*rs]
	valid := vsPB(x, bl, mdb.pubKeyHash) == pocutil.FlipValue(vsPB(xp, bl, mdb.pubKeyHash), bl) && vsFBsym(x, xp, bl, mdb.pubKeyHash) == z
	vsAssert((err == nil) == valid, "proof-served-iff-the-stored-entry-verifies")
	if err == nil {
		vsAssert(proof != nil && bytes.Equal(proof.X, x) && bytes.Equal(proof.XPrime, xp) && proof.BL == bl, "served-proof-is-the-stored-entry")
		// a proof handed out stays what it was when the same space serves the next challenge
		x0, xp0 := append([]byte{}, x...), append([]byte{}, xp...)
		var c2 pocutil.Hash
		copy(c2[:], vsNondetBytes(32, "challenge2"))
		mdb.GetProof(c2, false)
		vsAssert(bytes.Equal(proof.X, x0) && bytes.Equal(proof.XPrime, xp0), "served-proof-is-not-overwritten-by-the-next-lookup")
		vsReach("proof-served")
	} else {
		vsAssert(proof == nil, "no-proof-on-error")
		vsReach("proof-refused")
	}
	vsSparse = false
}
