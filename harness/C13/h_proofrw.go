//go:build verif

package engine

import "time"

// contract of context.WithCancel as ProofRW uses it: Done() is a channel closed by cancel()
type vsCtxE struct{ done chan struct{} }

func (c *vsCtxE) Deadline() (time.Time, bool)       { return time.Time{}, false }
func (c *vsCtxE) Done() <-chan struct{}             { return c.done }
func (c *vsCtxE) Err() error                        { return nil }
func (c *vsCtxE) Value(key interface{}) interface{} { return nil }

// VsH_ProofRW: the proof pipe between the keeper's producer goroutine and the miner. The producer writes, then closes
// (twice: its deferred Close and an explicit one are both in the callers); the caller's context may be cancelled before,
// between or after these steps, which makes the pipe's watcher goroutine close it as well. In every order nothing
// panics (no double close of the channel), a write after the close is refused, every accepted proof can still be read
// and the reader then sees end-of-stream, and the pipe's mutex is free afterwards.
func VsH_ProofRW() {
	c := &vsCtxE{done: make(chan struct{})}
	prw := NewProofRW(c, 2)
	vsAssert(vsSpawned() == 1, "watcher-goroutine-started")
	cancelAt := vsFork(5, "cancelAt") // before step 0..3, or never (4)
	cancelled := false
	cancel := func() {
		if !cancelled {
			cancelled = true
			close(c.done)
			vsRunSpawned(0) // the watcher wakes up and closes the pipe
		}
	}
	accepted := 0
	for step := 0; step < 4; step++ {
		if cancelAt == step {
			cancel()
		}
		switch step {
		case 0:
			if prw.Write(&WorkSpaceProof{SpaceID: "a"}) == nil {
				accepted++
			} else {
				vsAssert(cancelled, "write-refused-only-after-close")
			}
		case 1, 2:
			prw.Close()
		case 3:
			vsAssert(prw.Write(&WorkSpaceProof{SpaceID: "b"}) == ErrProofIOTimeout, "write-after-close-is-refused")
		}
	}
	for i := 0; i < accepted; i++ {
		p, err := prw.Read()
		vsAssert(err == nil && p != nil, "accepted-proof-is-delivered")
	}
	p, err := prw.Read()
	vsAssert(p == nil && err != nil, "reader-sees-end-of-stream-after-close")
	vsAssert(!vsAnyLockHeld(), "all-locks-released")
	vsReach("proofrw-end")
}
