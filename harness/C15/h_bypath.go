//go:build verif

package capacity

import (
	"os"
	"time"

	"massnet.org/mass/poc/engine"
)

// environment of ConfigureByPath by contract: the directories exist, paths are already absolute, the index has been
// built (the harness supplies it)
type vsDirInfo struct{}

func (vsDirInfo) Name() string       { return "d" }
func (vsDirInfo) Size() int64        { return 0 }
func (vsDirInfo) Mode() os.FileMode  { return os.ModeDir }
func (vsDirInfo) ModTime() time.Time { return time.Time{} }
func (vsDirInfo) IsDir() bool        { return true }
func (vsDirInfo) Sys() interface{}   { return nil }

func vsAbs(p string) (string, error)           { return p, nil }
func vsStat(p string) (os.FileInfo, error)     { return vsDirInfo{}, nil }

// recorder for the configured list that does not allocate by its (symbolic) length
func vsApplyRec(sk *SpaceKeeper, wsList []*WorkSpace, execPlot, execMine bool) ([]engine.WorkSpaceInfo, error) {
	if len(wsList) == 0 {
		return nil, ErrSpaceKeeperConfiguredNothing
	}
	vsApplied = wsList
	return []engine.WorkSpaceInfo{{}}, nil
}

// VsH_ConfigureByPath: the real ConfigureByPath over two directories, each with its own requested size, and 0..1
// indexed spaces per bit length in either directory: per directory the selected total stays within that directory's
// request and falls short of it by less than the smallest plot, whatever was selected for the other directory.
func VsH_ConfigureByPath() {
	sk, all := vsSetup()
	sk.generateInitialIndex = func() error { return nil }
	var in [2]uint64
	for _, ws := range all {
		if ws.rootDir == "/d0" {
			in[0] += vsSize(ws.id.bitLength)
		} else {
			in[1] += vsSize(ws.id.bitLength)
		}
	}
	t0, t1 := vsNondetI64("target0"), vsNondetI64("target1")
	vsAssume(t0 >= 0 && uint64(t0) <= in[0]+2*vsSize(24) && t1 >= 0 && uint64(t1) <= in[1]+2*vsSize(24))
	_, err := sk.ConfigureByPath([]string{"/d0", "/d1"}, []int{int(t0), int(t1)}, false, false)
	if err != nil {
		vsReach("by-path-rejected")
		return
	}
	var sum [2]uint64
	for _, ws := range vsApplied {
		if ws.rootDir == "/d0" {
			sum[0] += vsSize(ws.id.bitLength)
		} else {
			sum[1] += vsSize(ws.id.bitLength)
		}
	}
	vsAssert(sum[0] <= uint64(t0) && uint64(t0)-sum[0] < vsSize(24), "first-directory-total-within-its-request-and-shortfall-below-smallest")
	vsAssert(sum[1] <= uint64(t1) && uint64(t1)-sum[1] < vsSize(24), "second-directory-total-within-its-request-and-shortfall-below-smallest")
	vsReach("by-path-configured")
}
