//go:build verif

package config

// VsH_ProofList: the configured proof list "<BL>:<count>,<BL>:<count>,..." decodes to exactly the requested count per
// bit length: entries naming the same bit length are added together (documented at DecodeProofList), for two or three
// entries with arbitrary (valid, even, 24..40) bit lengths and one-digit counts.
func VsH_ProofList() {
	n := vsFork(2, "items") + 2
	var bls, cs [3]int
	s := make([]byte, 0, 16)
	for i := 0; i < n; i++ {
		t, u, c := vsNondetU8("bl-tens"), vsNondetU8("bl-units"), vsNondetU8("count")
		vsAssume(t >= '2' && t <= '4' && u >= '0' && u <= '9' && c >= '0' && c <= '9')
		bl := int(t-'0')*10 + int(u-'0')
		vsAssume(bl >= 24 && bl <= 40 && bl%2 == 0)
		bls[i], cs[i] = bl, int(c-'0')
		if i > 0 {
			s = append(s, ',')
		}
		s = append(s, t, u, ':', c)
	}
	conf, err := DecodeProofList(string(s))
	vsAssert(err == nil, "well-formed-proof-list-decodes")
	vsAssume(err == nil)
	for i := 0; i < n; i++ {
		want := 0
		for j := 0; j < n; j++ {
			if bls[j] == bls[i] {
				want += cs[j]
			}
		}
		vsAssert(conf[bls[i]] == want, "count-per-bit-length-is-the-sum-of-its-entries")
	}
	vsReach("decoded")
}
