//go:build verif

package capacity

import (
	"github.com/massnetorg/mass-core/massutil/service"
	"github.com/massnetorg/mass-core/poc"
	"github.com/massnetorg/mass-core/pocec"
	"github.com/shirou/gopsutil/disk"
	"massnet.org/mass/poc/engine"
)

var vsFree uint64
var vsCreated []*WorkSpace
var vsIndexed map[int][]*WorkSpace
var vsApplied []*WorkSpace

// contract of disk.Usage: an arbitrary amount of free bytes
func vsDiskUsage(path string) (*disk.UsageStat, error) { return &disk.UsageStat{Path: path, Free: vsFree}, nil }

var vsNewNames = []string{"n0", "n1", "n2", "n3", "n4", "n5", "n6", "n7", "n8", "n9", "n10", "n11", "n12", "n13"}

// NewWorkSpace replaced by a recorder (no files): every creation is remembered with its directory and bit length
func vsNewWorkSpace(dbType string, rootDir string, ordinal int64, pubKey *pocec.PublicKey, bitLength int) (*WorkSpace, error) {
	d := &vsDB{bl: bitLength, pk: pubKey}
	ws := &WorkSpace{id: &SpaceID{pubKey: pubKey, bitLength: bitLength, ordinal: ordinal, str: "new"}, db: d, state: engine.Registered, rootDir: rootDir}
	vsCreated = append(vsCreated, ws)
	// within the stated bound on the amount to generate no request needs more than a dozen new spaces: a run that creates
	// more has lost track of the size it is filling (reported, and the runaway path is cut here)
	if len(vsCreated) > 12 {
		vsAssert(false, "creates-more-spaces-than-the-request-can-need")
		vsAssume(false)
	}
	return ws, nil
}

// index / queue bookkeeping replaced by recorders (covered by C09); the size arithmetic and the glue stay real
func vsGetIndexed(sk *SpaceKeeper) map[int][]*WorkSpace { return vsIndexed }
func vsAddToIndex(sk *SpaceKeeper, ws *WorkSpace)       {}
func vsApply(sk *SpaceKeeper, wsList []*WorkSpace, execPlot, execMine bool) ([]engine.WorkSpaceInfo, error) {
	if len(wsList) == 0 {
		return nil, ErrSpaceKeeperConfiguredNothing
	}
	vsApplied = wsList
	return make([]engine.WorkSpaceInfo, len(wsList)), nil
}

func vsSize(bl int) uint64 { return poc.ProofTypeDefault.PlotSize(bl) }

func vsSetup() (*SpaceKeeper, []*WorkSpace) {
	vsCreated, vsApplied = nil, nil
	vsIndexed = map[int][]*WorkSpace{}
	var all []*WorkSpace
	for _, bl := range []int{24, 26, 28} {
		n := vsFork(vsBound("maxindexed")+1, "indexed")
		for j := 0; j < n; j++ {
			dir := "/d0"
			if vsFork(2, "dir") == 1 {
				dir = "/d1"
			}
			ws := &WorkSpace{id: &SpaceID{bitLength: bl, ordinal: int64(len(all)), str: "old"}, db: &vsDB{bl: bl}, state: engine.Ready, rootDir: dir}
			vsIndexed[bl] = append(vsIndexed[bl], ws)
			all = append(all, ws)
		}
	}
	sk := &SpaceKeeper{allowGenerateNewSpace: vsNondetBool("allowGenerate"), dbDirs: []string{"/d0", "/d1"}, dbType: "vs", wallet: &vsWallet{}}
	sk.BaseService = service.NewBaseService(sk, "vs")
	vsFree = vsNondetU64("free")
	return sk, all
}

// VsH_ConfigureBySize: indexed spaces (0..maxindexed of each of the bit lengths 24/26/28, in two directories), any
// target (subject to the stated bound on the amount to be generated), any free disk space, generation allowed or not.
func VsH_ConfigureBySize() {
	sk, all := vsSetup()
	target := vsNondetU64("target")
	var indexedTotal uint64
	for _, ws := range all {
		indexedTotal += vsSize(ws.id.bitLength)
	}
	// stated bound: the generation loop is unbounded in the target
	vsAssume(target <= indexedTotal+2*vsSize(28) || target >= uint64(1)<<63)

	_, err := sk.ConfigureBySize(target, vsNondetBool("execPlot"), vsNondetBool("execMine"))

	min := vsSize(24)
	if target < min {
		vsAssert(err != nil && len(vsCreated) == 0, "under-minimum-rejected-without-creating")
	}
	if target >= uint64(1)<<63 {
		vsAssert(err != nil && len(vsCreated) == 0, "target-beyond-int-range-rejected-without-creating")
		vsReach("wrapped-target")
		return
	}
	if err != nil {
		vsAssert(len(vsCreated) == 0, "rejected-request-creates-nothing")
		vsReach("rejected")
		return
	}
	var sum, indexedSum uint64
	nIndexedSelected := 0
	for _, ws := range vsApplied {
		sum += vsSize(ws.id.bitLength)
	}
	for _, ws := range all {
		sel := false
		for _, a := range vsApplied {
			if a == ws {
				sel = true
			}
		}
		if sel {
			nIndexedSelected++
			indexedSum += vsSize(ws.id.bitLength)
		}
	}
	vsAssert(sum <= target, "selected-total-never-exceeds-request")
	vsAssert(target-sum < min, "shortfall-below-smallest-plot-size")
	vsAssert(len(vsApplied) == nIndexedSelected+len(vsCreated), "result-is-indexed-selection-plus-creations")
	for _, ws := range all {
		sel := false
		for _, a := range vsApplied {
			if a == ws {
				sel = true
			}
		}
		if !sel {
			vsAssert(vsSize(ws.id.bitLength) > target-indexedSum, "indexed-spaces-used-before-creating")
		}
	}
	if len(vsCreated) > 0 {
		vsAssert(sk.allowGenerateNewSpace, "creation-only-when-allowed")
		vsAssert(target-indexedSum >= min, "creation-only-when-gap-fits-a-plot")
		vsAssert(target-indexedSum < vsFree, "creation-only-within-free-disk-space")
		for _, ws := range vsCreated {
			vsAssert(ws.rootDir == "/d0", "creation-in-the-first-configured-directory")
		}
	}
	vsReach("configured")
}

// VsH_ByPathSize: the per-directory pair fillSpaceListByPathSize / generateFillSpaceListByPathSize for one directory.
func VsH_ByPathSize() {
	sk, all := vsSetup()
	t := vsNondetI64("target")
	var inDir uint64
	for _, ws := range all {
		if ws.rootDir == "/d1" {
			inDir += vsSize(ws.id.bitLength)
		}
	}
	vsAssume(t >= 0 && uint64(t) <= inDir+2*vsSize(28))
	target := uint64(t)
	list, cur, finished := fillSpaceListByPathSize("/d1", nil, vsIndexed, 0, int(t))
	var sum uint64
	for _, ws := range list {
		vsAssert(ws.rootDir == "/d1", "only-spaces-of-the-requested-directory-are-selected")
		sum += vsSize(ws.id.bitLength)
	}
	vsAssert(uint64(cur) == sum && sum <= target, "indexed-selection-within-request")
	vsAssert(finished == (target-sum < vsSize(24)), "finished-iff-gap-below-smallest-plot")
	for _, ws := range all {
		sel := false
		for _, a := range list {
			if a == ws {
				sel = true
			}
		}
		if !sel && ws.rootDir == "/d1" {
			vsAssert(vsSize(ws.id.bitLength) > target-sum, "indexed-spaces-of-the-directory-used-first")
		}
	}
	if !finished {
		list2, cur2, err := sk.generateFillSpaceListByPathSize("/d1", list, cur, int(t))
		if err != nil {
			vsAssert(len(vsCreated) == 0, "rejected-generation-creates-nothing")
			vsReach("path-rejected")
			return
		}
		var sum2 uint64
		for _, ws := range list2 {
			sum2 += vsSize(ws.id.bitLength)
		}
		vsAssert(uint64(cur2) == sum2 && sum2 <= target && target-sum2 < vsSize(24), "per-directory-total-within-request-and-shortfall-below-smallest")
		vsAssert(sk.allowGenerateNewSpace && target-sum < vsFree, "generation-only-when-allowed-and-within-free-space")
		for _, ws := range vsCreated {
			vsAssert(ws.rootDir == "/d1", "creation-only-in-the-requested-directory")
		}
		vsReach("path-generated")
	} else {
		vsReach("path-finished")
	}
}
