//go:build verif

package capacity

import "massnet.org/mass/poc/engine"

// VsH_ConfigureByBitLength: indexed spaces as in the by-size harness; the request asks for c24 spaces of bit length 24 and
// c26 of bit length 26 (0..3 each, arbitrary). The configured set holds exactly the requested number of each bit length,
// indexed spaces are used before new ones are created, nothing of another bit length is taken, creation happens only
// when allowed, and a rejected request creates nothing.
func VsH_ConfigureByBitLength() {
	sk, all := vsSetup()
	for s := engine.FirstState; s <= allState; s++ { // ConfigureByBitLength touches the ready index (result unused)
		sk.workSpaceIndex = append(sk.workSpaceIndex, NewWorkSpaceMap())
	}
	c24, c26 := int(vsNondetU8("count24")), int(vsNondetU8("count26"))
	vsAssume(c24 <= 3 && c26 <= 3)
	req := map[int]int{24: c24, 26: c26}
	_, err := sk.ConfigureByBitLength(req, vsNondetBool("execPlot"), vsNondetBool("execMine"))
	if err != nil {
		vsAssert(len(vsCreated) == 0, "rejected-request-creates-nothing")
		vsReach("rejected")
		return
	}
	have := map[int]int{}
	for _, ws := range all {
		have[ws.id.bitLength]++
	}
	for _, bl := range []int{24, 26, 28} {
		want := req[bl] // 0 for 28
		n, nIdx, nNew := 0, 0, 0
		for _, ws := range vsApplied {
			if ws.id.bitLength == bl {
				n++
				if ws.id.str == "old" {
					nIdx++
				} else {
					nNew++
				}
			}
		}
		vsAssert(n == want, "configured-count-per-bit-length-is-the-request")
		useIdx := want
		if have[bl] < useIdx {
			useIdx = have[bl]
		}
		vsAssert(nIdx == useIdx, "indexed-spaces-used-before-creating")
		vsAssert(nNew == want-useIdx, "created-exactly-the-missing-number")
	}
	if len(vsCreated) > 0 {
		vsAssert(sk.allowGenerateNewSpace, "creation-only-when-allowed")
	}
	vsAssert(len(vsApplied) == c24+c26, "nothing-else-is-configured")
	vsReach("configured")
}
