//go:build verif

package keystore

import "bytes"

type vsKsImage struct {
	name, remark     string
	addrs            int
	nextExt, nextInt uint32
	privDigest       [32]byte
	pubDigest        [32]byte
	ckPrivEnc        []byte
	unlocked         bool
}

type vsMgrImage struct {
	pub []byte
	ks  []vsKsImage
}

// vsImage: what the running instance shows of the wallet (the fields the open path rebuilds from the store)
func vsImage(kmc *KeystoreManagerForPoC) vsMgrImage {
	im := vsMgrImage{pub: append([]byte{}, kmc.pubPassphrase...)}
	for _, a := range kmc.managedKeystores {
		im.ks = append(im.ks, vsKsImage{a.keystoreName, a.remark, len(a.addrs), a.branchInfo.nextExternalIndex, a.branchInfo.nextInternalIndex,
			a.masterKeyPriv.Parameters.Digest, a.masterKeyPub.Parameters.Digest, append([]byte{}, a.cryptoKeyPrivEncrypted...), a.unlocked})
	}
	return im
}

func vsImageEqual(x, y vsMgrImage) bool {
	if !bytes.Equal(x.pub, y.pub) || len(x.ks) != len(y.ks) {
		return false
	}
	ok := true
	for i := range x.ks {
		a, b := x.ks[i], y.ks[i]
		if a.name != b.name || a.remark != b.remark || a.addrs != b.addrs || a.nextExt != b.nextExt || a.nextInt != b.nextInt ||
			a.privDigest != b.privDigest || a.pubDigest != b.pubDigest || !bytes.Equal(a.ckPrivEnc, b.ckPrivEnc) || a.unlocked != b.unlocked {
			ok = false
		}
	}
	return ok
}

// VsH_AtomicReal: the real wallet (two keystores under one passphrase) performs one mutating operation while the store
// fails at its k-th mutating call or at a commit (k chosen by vsFork). An operation that reports an error leaves the
// committed store and the running instance exactly as before and the passphrases keep working as before; an operation
// that reports success is completely committed: the reopened wallet equals the running one.
func VsH_AtomicReal() {
	kmc, a, pub, priv, id := vsNewWallet()
	opts := &ScryptOptions{N: 16, R: 8, P: 1}
	op := vsFork(6, "op")
	var file []byte
	if op == 1 { // the private passphrase change acts on every keystore: have two (the public one is run with one keystore)
		_, err := kmc.NewKeystore(priv, vsNondetBytes(32, "seed2"), "second", vsParams, opts)
		vsAssume(err == nil)
	}
	if op == 4 { // a keystore file made elsewhere under the same private passphrase
		mine := vsStore
		vsStore = &vsStoreT{root: &vsBkt{name: ""}}
		kb, err := NewKeystoreManagerForPoC(vsDBT{}, pub, vsParams)
		vsAssume(err == nil)
		idb, err := kb.NewKeystore(priv, vsNondetBytes(32, "seed2"), "foreign", vsParams, opts)
		vsAssume(err == nil)
		file, err = kb.ExportKeystore(idb, priv)
		vsAssume(err == nil)
		vsStore = mine
	}
	pre := vsStore.root.clone()
	before := vsImage(kmc)
	commits0 := vsStore.commits
	vsStore.ops = 0
	vsStore.faultAt = vsFork(vsBound("faultpoints"), "faultAt") + 1
	curPub, curPriv := pub, priv
	np := vsNondetBytes(6, "newpass")
	vsAssume(string(np) != string(priv) && string(np) != string(pub))
	var err error
	switch op {
	case 0:
		_, err = kmc.NextAddresses(id, false, 2)
	case 1:
		err = kmc.ChangePrivPassphrase(priv, np, opts)
		if err == nil {
			curPriv = np
		}
	case 2:
		err = kmc.ChangePubPassphrase(pub, np, opts)
		if err == nil {
			curPub = np
		}
	case 3:
		_, err = kmc.NewKeystore(priv, vsNondetBytes(32, "seed3"), "third", vsParams, opts)
	case 4:
		_, _, err = kmc.ImportKeystore(file, priv, nil)
	case 5:
		err = kmc.ChangeRemark(id, "renamed")
	}
	vsStore.faultAt = 0
	if err != nil {
		vsAssert(vsBktEqual(vsStore.root, pre), "failed-operation-leaves-the-store-unchanged")
		vsAssert(vsImageEqual(vsImage(kmc), before), "failed-operation-leaves-the-running-instance-unchanged")
		vsAssert(vsStore.commits == commits0, "failed-operation-commits-nothing")
		vsReach("operation-failed")
	} else {
		vsAssert(vsStore.commits > commits0 && vsStore.commits <= commits0+1, "acknowledged-operation-commits-exactly-once")
		vsReach("operation-acknowledged")
	}
	// either way the store is a consistent wallet: it reopens with the current public passphrase into the running image
	k2, oerr := NewKeystoreManagerForPoC(vsDBT{}, curPub, vsParams)
	vsAssert(oerr == nil, "store-reopens-after-the-operation")
	vsAssume(oerr == nil)
	vsAssert(len(k2.managedKeystores) == len(kmc.managedKeystores), "reopened-wallet-has-the-same-keystores")
	for name, run := range kmc.managedKeystores {
		vsAssert(vsSameKeystore(run, k2.managedKeystores[name]), "reopened-keystore-equals-the-running-one")
	}
	vsAssert(k2.Unlock(curPriv) == nil, "current-private-passphrase-unlocks-every-keystore-after-reopen")
	_ = a
}
