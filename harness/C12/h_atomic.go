//go:build verif

package keystore

// VsH_Atomic: one wallet operation with a storage fault at any mutating call or at commit (vsFork over the fault
// point, 0 = no fault): an operation that reports an error leaves store and running instance as before; an operation
// that reports success has its complete effect committed; every operation commits at most once.
func VsH_Atomic() {
	pass := vsNondetBytes(6, "pass")
	kmc, a := vsWallet(pass, "old")
	vsStore.faultAt = vsFork(vsBound("faultpoints")+1, "faultAt")
	pre := vsStore.root.clone()
	switch vsFork(2, "op") {
	case 0: // change remark (non-empty or empty = delete row)
		nr := "new"
		if vsFork(2, "emptyRemark") == 1 {
			nr = ""
		}
		err := kmc.ChangeRemark(vsAcct, nr)
		am := vsStore.root.subs[0].subs[0]
		stored := ""
		for _, e := range am.kvs {
			if e.k == string(remarkName) {
				stored = string(e.v)
			}
		}
		if err != nil {
			vsAssert(vsBktEqual(vsStore.root, pre), "failed-remark-change-leaves-store-unchanged")
			vsAssert(a.remark == "old", "failed-remark-change-leaves-running-instance-unchanged")
			vsReach("remark-failed")
		} else {
			vsAssert(stored == nr, "acknowledged-remark-change-is-committed")
			vsAssert(a.remark == nr, "acknowledged-remark-change-visible-in-running-instance")
			vsReach("remark-ok")
		}
	case 1: // delete keystore
		ok, err := kmc.DeleteKeystore(vsAcct, pass)
		_, managed := kmc.managedKeystores[vsAcct]
		km := vsStore.root.subs[0]
		bucketThere, idThere := false, false
		for _, s := range km.subs {
			if s.name == vsAcct {
				bucketThere = true
			}
			if s.name == "ids" {
				for _, e := range s.kvs {
					if e.k == vsAcct {
						idThere = true
					}
				}
			}
		}
		if err != nil || !ok {
			vsAssert(vsBktEqual(vsStore.root, pre), "failed-delete-leaves-store-unchanged")
			vsAssert(managed, "failed-delete-keeps-keystore-in-running-instance")
			vsReach("delete-failed")
		} else {
			vsAssert(!bucketThere && !idThere, "acknowledged-delete-is-completely-committed")
			vsAssert(!managed, "acknowledged-delete-removes-keystore-from-running-instance")
			vsReach("delete-ok")
		}
		vsAssert(bucketThere == idThere, "never-a-half-deleted-keystore-in-the-store")
	}
	vsAssert(vsStore.commits <= 1, "one-operation-commits-at-most-once")
}
