//go:build verif

package api

import (
	"errors"
	"net"
	"net/http"
	"net/url"

	"github.com/grpc-ecosystem/grpc-gateway/runtime"
)

// ---- environment stubs (listed in harness.json as overrides) -------------------------------

var vsRemoteIP net.IP
var vsRemoteBad bool

// contract of net.ResolveTCPAddr on a host:port literal: an error, or the IP of the literal (4 or 16 bytes)
func vsResolveTCPAddr(network, addr string) (*net.TCPAddr, error) {
	if vsRemoteBad {
		return nil, errors.New("malformed")
	}
	return &net.TCPAddr{IP: vsRemoteIP, Port: 1}, nil
}

func vsIsLoopback4(p net.IP) bool { return p[0] == 127 && p[1] == 0 && p[2] == 0 && p[3] == 1 }
func vsIsLoopback6(p net.IP) bool {
	for i := 0; i < 15; i++ {
		if p[i] != 0 {
			return false
		}
	}
	return p[15] == 1
}

// contract of net.IP.String: injective on the canonical form (dotted quad of To4 when it exists, else the
// 16-byte form), "127.0.0.1" / "::1" for the two loopback literals the code compares with.
func vsIPString(ip net.IP) string {
	if p4 := ip.To4(); len(p4) == 4 {
		if vsIsLoopback4(p4) {
			return "127.0.0.1"
		}
		return "4:" + string(p4)
	}
	if len(ip) == 16 {
		if vsIsLoopback6(ip) {
			return "::1"
		}
		return "6:" + string(ip)
	}
	return "?" + string(ip)
}

type vsInner struct{ called *bool }

func (h vsInner) ServeHTTP(w http.ResponseWriter, r *http.Request) { *h.called = true }

type vsRW struct{}

func (vsRW) Header() http.Header         { return nil }
func (vsRW) Write(b []byte) (int, error) { return len(b), nil }
func (vsRW) WriteHeader(statusCode int)  {}

// ---- oracle ----------------------------------------------------------------------------------

func vsCanon(ip net.IP) (v4 bool, b [16]byte) {
	if p := ip.To4(); p != nil {
		copy(b[:4], p)
		return true, b
	}
	copy(b[:], ip)
	return false, b
}

func vsSameIP(a, b net.IP) bool {
	a4, ab := vsCanon(a)
	b4, bb := vsCanon(b)
	return a4 == b4 && ab == bb && ((a4) || (len(a) == 16 && len(b) == 16))
}

// VsH_IPAllow: for every remote IP (4-byte, 16-byte incl. v4-mapped), every whitelist of ≤2 parsed IPs with or
// without "*", every subset of LAN switches plus an unknown prefix: allow ⇒ a stated reason holds; deny ⇒ 403 and the
// inner handler is not invoked; allow ⇒ inner handler invoked.
func VsH_IPAllow() {
	// remote address
	switch vsFork(2, "iplen") {
	case 0:
		vsRemoteIP = net.IP(vsNondetBytes(4, "ip4"))
	case 1:
		vsRemoteIP = net.IP(vsNondetBytes(16, "ip16"))
	}
	vsRemoteBad = vsNondetBool("malformed")

	// whitelist: up to two entries, each "*" or a parsed IP
	nwl := vsFork(3, "nwhitelist")
	var wl []string
	var wlIPs []net.IP
	star := false
	for i := 0; i < nwl; i++ {
		if vsNondetBool("wl_is_star") {
			wl = append(wl, "*")
			star = true
		} else {
			// a symbolic entry: ParseIP's contract yields nil (rejected) or a 16-byte IP
			wl = append(wl, vsNondetString(3, "wl_text"))
		}
	}
	// LAN switches
	var lans []string
	use10, use172, use192, useBad := vsNondetBool("lan10"), vsNondetBool("lan172"), vsNondetBool("lan192"), vsNondetBool("lanbad")
	if use10 {
		lans = append(lans, "10")
	}
	if useBad {
		lans = append(lans, "11")
	}
	if use172 {
		lans = append(lans, "172")
	}
	if use192 {
		lans = append(lans, "192")
	}

	vsParsed = nil
	fn, err := getIPAccessControlFunc(wl, lans)
	if err != nil {
		// construction error only when some non-"*" entry failed to parse
		vsAssert(vsParseFailed, "ctor-error-only-on-invalid-whitelist")
		vsReach("ctor-error")
		return
	}
	vsAssert(!vsParseFailed, "invalid-whitelist-entry-rejected")
	wlIPs = vsParsed

	called := false
	status := 0
	runtime.OtherErrorHandler = func(w http.ResponseWriter, r *http.Request, msg string, code int) { status = code }
	h := accessControlHandler(vsInner{&called}, fn)
	h.ServeHTTP(vsRW{}, &http.Request{RemoteAddr: "remote", URL: &url.URL{Path: "/"}})

	allowed := called
	vsAssert(called != (status == 403), "deny-iff-403-and-inner-not-invoked")
	vsAssert(called || status == 403, "deny-writes-403")

	// the stated reasons
	ip := vsRemoteIP
	p4 := ip.To4()
	reason := star
	if !vsRemoteBad {
		if p4 != nil {
			if p4[0] == 127 {
				reason = true // loopback 127/8 (the code admits only 127.0.0.1, which is inside)
			}
			if use10 && p4[0] == 10 {
				reason = true
			}
			if use172 && p4[0] == 172 && p4[1]&0xf0 == 16 {
				reason = true
			}
			if use192 && p4[0] == 192 && p4[1] == 168 {
				reason = true
			}
		} else if vsIsLoopback6(ip) {
			reason = true
		}
		for _, w := range wlIPs {
			if vsSameIP(w, ip) {
				reason = true
			}
		}
	}
	vsAssert(!allowed || reason, "allow-implies-stated-reason")
	if vsRemoteBad && !star {
		vsAssert(!allowed, "malformed-address-denied")
	}
	// completeness for the configured reasons (loopback literal, whitelist, enabled LAN): these are served
	must := star
	if !vsRemoteBad {
		if p4 != nil {
			if vsIsLoopback4(p4) || (use10 && p4[0] == 10) || (use172 && p4[0] == 172 && p4[1]&0xf0 == 16) || (use192 && p4[0] == 192 && p4[1] == 168) {
				must = true
			}
		} else if vsIsLoopback6(ip) {
			must = true
		}
		for _, w := range wlIPs {
			if vsSameIP(w, ip) {
				must = true
			}
		}
	}
	vsAssert(!must || allowed, "configured-origin-is-served")
	if allowed {
		vsReach("allowed")
	} else {
		vsReach("denied")
	}
}

var vsParsed []net.IP
var vsParseFailed bool

// contract of net.ParseIP on a non-literal string: nil, or a 16-byte IP (ParseIP never returns 4-byte slices)
func vsParseIPSym(s string) net.IP {
	if vsNondetBool("parse_fails") {
		vsParseFailed = true
		return nil
	}
	ip := net.IP(vsNondetBytes(16, "wl_ip"))
	vsParsed = append(vsParsed, ip)
	return ip
}
