//go:build verif

package api

import (
	"github.com/massnetorg/mass-core/consensus"
	"github.com/massnetorg/mass-core/massutil"
)

// the maximum supply as the chain library defines it (its package initialiser is not run by the executor)
func vsMaxAmount() massutil.Amount {
	a, _ := massutil.NewAmountFromUint(consensus.MaxMass * consensus.MaxwellPerMass)
	return a
}

// VsH_Amount: every amount from zero to the maximum supply is rendered as its exact canonical decimal text (integer part
// without leading zeros, at most eight fraction digits without trailing zeros, no point for whole coins) and the text
// parses back to the same integer. The amount is built from its decimal digits; the two structural parameters (number
// of integer digits, number of trailing zero fraction digits) are case-split, the digits themselves are symbolic.
func VsH_Amount() {
	j := vsFork(9, "integer-digits") + 1 // 1..9 digits before the point
	t := vsFork(9, "trailing-zero-fraction-digits") // 0..8 (8: whole coins)
	g := make([]byte, j)
	var I uint64
	for i := 0; i < j; i++ {
		g[i] = vsNondetU8("int-digit")
		vsAssume(g[i] <= 9)
		I = I*10 + uint64(g[i])
	}
	vsAssume(j == 1 || g[0] != 0)
	var f [8]byte
	var F uint64
	for i := 0; i < 8; i++ {
		if i < 8-t {
			f[i] = vsNondetU8("frac-digit")
			vsAssume(f[i] <= 9)
		}
		F = F*10 + uint64(f[i])
	}
	if t < 8 {
		vsAssume(f[7-t] != 0)
	}
	vsAssume(I < consensus.MaxMass || (I == consensus.MaxMass && F == 0))
	m := int64(I*consensus.MaxwellPerMass + F)
	want := make([]byte, 0, 20)
	for i := 0; i < j; i++ {
		want = append(want, '0'+g[i])
	}
	if t < 8 {
		want = append(want, '.')
		for i := 0; i < 8-t; i++ {
			want = append(want, '0'+f[i])
		}
	}
	s, err := AmountToString(m)
	vsAssert(err == nil, "amount-within-supply-is-rendered")
	vsAssume(err == nil)
	vsAssert(s == string(want), "rendered-amount-is-the-exact-canonical-decimal")
	a, err := StringToAmount(string(want))
	vsAssert(err == nil, "canonical-text-parses")
	vsAssume(err == nil)
	vsAssert(a.IntValue() == m, "rendered-amount-parses-back-to-the-same-integer")
	vsReach("amount-round-trip")
}

// VsH_AmountRange: amounts outside [0, maximum supply] are refused, by the renderer and by the parser
func VsH_AmountRange() {
	max := int64(consensus.MaxMass * consensus.MaxwellPerMass)
	m := vsNondetI64("amount")
	switch vsFork(2, "side") {
	case 0:
		vsAssume(m < 0)
	case 1:
		vsAssume(m > max)
	}
	_, err := AmountToString(m)
	vsAssert(err != nil, "amount-outside-the-supply-is-refused")
	vsReach("refused")
}
