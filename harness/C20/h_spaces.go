//go:build verif

package api

import (
	"github.com/massnetorg/mass-core/config"
	"github.com/massnetorg/mass-core/massutil"
	"github.com/massnetorg/mass-core/poc/chiapos"
	"github.com/massnetorg/mass-core/poc/pocutil"
	"github.com/massnetorg/mass-core/pocec"
	"massnet.org/mass/poc/engine"
	engine_v2 "massnet.org/mass/poc/engine.v2"
)

// chain-library side by contract: hash160 an injective uninterpreted function, the two text encodings injective
// stand-ins ("ms"/"bt" + the encoded bytes); key serialisation: the 33 bytes chosen by the harness
var vsKeyBytes []byte

func vsSerPK(p *pocec.PublicKey) []byte { return append([]byte{}, vsKeyBytes...) }
func vsH160(b []byte) []byte            { return vsUFBytesInj("hash160", 20, b) }

type vsAddr struct {
	kind string
	data []byte
}

var vsLastTarget []byte // what NewAddressBindingTarget was given

func vsNewBindingTarget(serialized []byte, net *config.Params) (*massutil.AddressBindingTarget, error) {
	vsLastTarget = append([]byte{}, serialized...)
	return &massutil.AddressBindingTarget{}, nil
}
func vsEncodeTarget(a *massutil.AddressBindingTarget) string { return "bt" + string(vsLastTarget) }

var vsLastPKH []byte

func vsNewPKH(h []byte, net *config.Params) (*massutil.AddressPubKeyHash, error) {
	vsLastPKH = append([]byte{}, h...)
	return &massutil.AddressPubKeyHash{}, nil
}
func vsEncodePKH(a *massutil.AddressPubKeyHash) string { return "ms" + string(vsLastPKH) }

// VsH_SpaceRendering: a listed native workspace carries the hex of its key, the pay-to-pubkey-hash address of that key
// and the binding target enc(hash160(key) ‖ proof type 0 ‖ bit length); a listed chia workspace carries
// enc(hash160(plot id) ‖ proof type 1 ‖ k) - for every key, plot id and size.
func VsH_SpaceRendering() {
	bl := int(vsNondetU8("bitlength"))
	vsAssume(bl >= 24 && bl <= 40)
	if vsFork(2, "version") == 0 {
		vsKeyBytes = vsNondetBytes(33, "pubkey")
		wsi := engine.WorkSpaceInfo{SpaceID: "sid", PublicKey: &pocec.PublicKey{}, BitLength: bl, Ordinal: int64(vsNondetU8("ordinal")), State: engine.Ready}
		ws, err := workSpaceInfo2ProtoWorkSpace(wsi)
		vsAssert(err == nil && ws != nil, "native-space-is-rendered")
		vsAssume(err == nil && ws != nil)
		h := vsH160(vsKeyBytes)
		vsAssert(ws.Address == "ms"+string(h), "address-is-the-pay-to-pubkey-hash-of-the-plot-key")
		vsAssert(ws.BindingTarget == "bt"+string(append(append([]byte{}, h...), 0, byte(bl))), "binding-target-is-hash160-of-key-then-proof-type-then-size")
		vsAssert(ws.BitLength == uint32(bl) && ws.SpaceId == "sid" && ws.Ordinal == wsi.Ordinal, "size-id-and-ordinal-are-the-spaces")
		vsAssert(len(ws.PublicKey) == 66, "public-key-is-rendered-as-66-hex-digits")
		// the same key listed again with another size (a re-plotted key, or both listings in one process)
		bl2 := int(vsNondetU8("bitlength2"))
		vsAssume(bl2 >= 24 && bl2 <= 40 && bl2 != bl)
		wsi.BitLength = bl2
		ws2, err := workSpaceInfo2ProtoWorkSpace(wsi)
		vsAssert(err == nil && ws2 != nil, "native-space-is-rendered-again")
		vsAssume(err == nil && ws2 != nil)
		vsAssert(ws2.BindingTarget == "bt"+string(append(append([]byte{}, h...), 0, byte(bl2))), "binding-target-of-the-same-key-with-another-size-carries-that-size")
		vsAssert(ws2.Address == "ms"+string(h) && ws2.BitLength == uint32(bl2), "address-and-size-of-the-second-listing")
	} else {
		var id pocutil.Hash
		copy(id[:], vsNondetBytes(32, "plotid"))
		wsi := engine_v2.WorkSpaceInfo{SpaceID: "sid", PlotID: id, BitLength: bl}
		var g chiapos.G1Element
		copy(g[:], vsNondetBytes(48, "g1"))
		wsi.PublicKey = &g
		ws, err := workSpaceInfo2ProtoWorkSpaceV2(wsi)
		vsAssert(err == nil && ws != nil, "chia-space-is-rendered")
		vsAssume(err == nil && ws != nil)
		h := vsH160(id[:])
		vsAssert(ws.BindingTarget == "bt"+string(append(append([]byte{}, h...), 1, byte(bl))), "chia-binding-target-is-hash160-of-plot-id-then-proof-type-then-k")
		vsAssert(ws.K == uint32(bl) && ws.SpaceId == "sid", "k-and-id-are-the-spaces")
		bl2 := int(vsNondetU8("k2"))
		vsAssume(bl2 >= 24 && bl2 <= 40 && bl2 != bl)
		wsi.BitLength = bl2
		ws2, err := workSpaceInfo2ProtoWorkSpaceV2(wsi)
		vsAssert(err == nil && ws2 != nil, "chia-space-is-rendered-again")
		vsAssume(err == nil && ws2 != nil)
		vsAssert(ws2.BindingTarget == "bt"+string(append(append([]byte{}, h...), 1, byte(bl2))), "chia-binding-target-of-the-same-plot-id-with-another-k-carries-that-k")
	}
	vsReach("rendered")
}
