//go:build verif

package miner

import (
	"context"
	"math/big"
	"time"

	"github.com/massnetorg/mass-core/blockchain"
	"github.com/massnetorg/mass-core/massutil"
	"github.com/massnetorg/mass-core/wire"
)

// A chain as the stale monitor sees it. BlockWaiter(h) follows the contract of blockchain.BlockWaiter: it refuses a
// height below the best one, otherwise hands out a channel on which the next best node of height >= h is delivered
// (once). The harness delivers nodes itself.
type vsChainS struct {
	best    *blockchain.BlockNode
	waits   []uint64 // heights asked for
	chans   []chan *blockchain.BlockNode
	failArm int // the k-th BlockWaiter call fails (0: never)
}

func (c *vsChainS) BestBlockNode() *blockchain.BlockNode       { return c.best }
func (c *vsChainS) BestBlockHash() *wire.Hash                  { return c.best.Hash }
func (c *vsChainS) BestBlockHeight() uint64                    { return c.best.Height }
func (c *vsChainS) ProcessBlock(*massutil.Block) (bool, error) { return false, nil }
func (c *vsChainS) ChainID() *wire.Hash                        { return nil }
func (c *vsChainS) NewBlockTemplate([]massutil.Address, chan interface{}) error {
	return nil
}
func (c *vsChainS) BlockWaiter(h uint64) (<-chan *blockchain.BlockNode, error) {
	c.waits = append(c.waits, h)
	if len(c.waits) == c.failArm || c.best.Height > h {
		return nil, errBestChainSwitched
	}
	ch := make(chan *blockchain.BlockNode, 1)
	c.chans = append(c.chans, ch)
	return ch, nil
}

// contract of context.WithCancel as the monitor uses it: Done() is a channel closed by cancel()
type vsCtx struct{ done chan struct{} }

func (c *vsCtx) Deadline() (time.Time, bool)       { return time.Time{}, false }
func (c *vsCtx) Done() <-chan struct{}             { return c.done }
func (c *vsCtx) Err() error                        { return nil }
func (c *vsCtx) Value(key interface{}) interface{} { return nil }

func vsWithCancel(parent context.Context) (context.Context, context.CancelFunc) {
	c := &vsCtx{done: make(chan struct{})}
	closed := false
	return c, func() {
		if !closed {
			closed = true
			close(c.done)
		}
	}
}

// VsH_StaleMonitor: the real runStaleMonitor and its goroutine. The round is built on `parent` (the best tip). A new
// best node arrives: a child, a sibling at the parent's height with a larger capacity sum, a sibling with equal sum and
// an earlier timestamp, or one that is not better. The monitor must raise the stale flag exactly for the better ones -
// in particular it must be listening at the parent's own height, where sibling tips appear.
func VsH_StaleMonitor() {
	hp := vsNondetU64("parent.height")
	vsAssume(hp >= 1 && hp < 1<<40)
	capP := int64(vsNondetU32("parent.capsum"))
	tsP := int64(vsNondetU32("parent.time"))
	ph := wire.Hash{1}
	parent := &blockchain.BlockNode{Hash: &ph, Height: hp, CapSum: big.NewInt(capP), Timestamp: time.Unix(tsP, 0), Quality: big.NewInt(5)}
	chain := &vsChainS{best: parent}
	var slot uint64
	// a round built on another tip is refused at once
	if vsFork(2, "switched") == 1 {
		other := wire.Hash{2}
		_, _, err := runStaleMonitor(chain, &slot, &other)
		vsAssert(err != nil, "round-on-a-tip-that-is-no-longer-best-is-refused")
		vsReach("switched")
		return
	}
	cancel, staled, err := runStaleMonitor(chain, &slot, &ph)
	vsAssert(err == nil && cancel != nil && staled != nil, "monitor-starts-on-the-best-tip")
	vsAssume(err == nil)
	vsAssert(len(chain.waits) == 1 && chain.waits[0] <= hp, "monitor-listens-from-the-parents-height")
	vsAssert(!staled(), "fresh-round-is-not-stale")
	vsAssert(vsSpawned() == 1, "monitor-goroutine-started")
	// the new best node
	kind := vsFork(4, "newtip")
	nh := wire.Hash{3}
	n := &blockchain.BlockNode{Hash: &nh, Quality: big.NewInt(5)}
	better := false
	switch kind {
	case 0: // child of the parent with a larger capacity sum
		n.Height, n.CapSum, n.Timestamp = hp+1, big.NewInt(capP+1), time.Unix(tsP+3, 0)
		better = true
	case 1: // sibling at the parent's height, larger capacity sum
		n.Height, n.CapSum, n.Timestamp = hp, big.NewInt(capP+1), time.Unix(tsP, 0)
		better = true
	case 2: // sibling, equal capacity sum, earlier timestamp
		n.Height, n.CapSum, n.Timestamp = hp, big.NewInt(capP), time.Unix(tsP-1, 0)
		better = true
	case 3: // sibling that is not better (smaller capacity sum): the round goes on, and the monitor keeps listening
		n.Height, n.CapSum, n.Timestamp = hp, big.NewInt(capP-1), time.Unix(tsP, 0)
	}
	// delivery follows BlockWaiter's contract: only a waiter registered at a height <= the node's gets it
	if chain.waits[0] <= n.Height && len(chain.chans) == 1 {
		chain.chans[0] <- n
	}
	vsRunSpawned(0)
	if better {
		vsAssert(staled(), "better-tip-raises-the-stale-flag")
	} else {
		vsAssert(!staled(), "tip-that-is-not-better-does-not-abandon-the-round")
		vsAssert(len(chain.waits) == 2 && chain.waits[1] <= hp, "monitor-re-arms-from-the-parents-height")
	}
	vsReach("stale-monitor-end")
}
