//go:build verif

package miner

import (
	"errors"
	"time"

	"github.com/massnetorg/mass-core/blockchain"
	"github.com/massnetorg/mass-core/massutil"
	"github.com/massnetorg/mass-core/wire"
)

// chain for the submission step: ProcessBlock records the clock reading at which it was called and answers arbitrarily
type vsChainP struct {
	calls    int
	at       int64
	block    *massutil.Block
	orphan   bool
	reject   bool
	sleepSum int64
}

func (c *vsChainP) BestBlockNode() *blockchain.BlockNode { return nil }
func (c *vsChainP) BestBlockHash() *wire.Hash            { return nil }
func (c *vsChainP) BestBlockHeight() uint64              { return 0 }
func (c *vsChainP) ChainID() *wire.Hash                  { return nil }
func (c *vsChainP) BlockWaiter(uint64) (<-chan *blockchain.BlockNode, error) {
	return nil, nil
}
func (c *vsChainP) NewBlockTemplate([]massutil.Address, chan interface{}) error { return nil }
func (c *vsChainP) ProcessBlock(b *massutil.Block) (bool, error) {
	c.calls++
	c.block = b
	c.at = vsClock
	if c.reject {
		return false, errors.New("rejected")
	}
	return c.orphan, nil
}

// clock: starts at an arbitrary second, advanced by Sleep
var vsClock int64

func vsNowP() time.Time        { return time.Unix(vsClock, 0) }
func vsSleepP(d time.Duration) { vsClock += 1 } // submitBlock polls every 3/4 s: one step of the model is at most a second

var vsBlockHash = wire.Hash{7}

func vsBlockHashOf(b *massutil.Block) *wire.Hash { return &vsBlockHash }

// VsH_SubmitBlock: a solved block whose header timestamp lies up to a few seconds ahead of the clock is handed to the
// chain exactly once and not before the clock has passed its timestamp; it counts as mined (height remembered against
// double mining, hash announced) exactly when the chain accepted it as a non-orphan.
func VsH_SubmitBlock() {
	now := int64(vsNondetU32("now"))
	ahead := int64(vsFork(4, "ahead")) // header timestamp 0..3 s after the clock
	vsClock = now
	h := uint64(vsNondetU32("height"))
	blk := massutil.NewBlock(&wire.MsgBlock{Header: wire.BlockHeader{Height: h, Timestamp: time.Unix(now+ahead, 0)}})
	c := &vsChainP{orphan: vsNondetBool("orphan"), reject: vsNondetBool("reject")}
	m := &PoCMiner{chain: c, minedHeight: make(map[uint64]struct{}), newBlockCh: make(chan *wire.Hash, 2)}
	ok := m.submitBlock(blk, massutil.ZeroAmount())
	vsAssert(c.calls == 1 && c.block == blk, "block-is-handed-to-the-chain-exactly-once")
	vsAssert(c.at > now+ahead, "block-is-not-submitted-before-its-timestamp")
	accepted := !c.reject && !c.orphan
	vsAssert(ok == accepted, "submission-reports-acceptance")
	_, remembered := m.minedHeight[h]
	vsAssert(remembered == accepted, "height-remembered-against-double-mining-iff-accepted")
	vsAssert((len(m.newBlockCh) == 1) == accepted, "block-announced-iff-accepted")
	vsReach("submit-end")
}
