//go:build verif

package miner

import (
	"context"
	"errors"
	"math/big"
	"time"

	"github.com/massnetorg/mass-core/blockchain"
	"github.com/massnetorg/mass-core/poc"
	"github.com/massnetorg/mass-core/poc/pocutil"
	"github.com/massnetorg/mass-core/pocec"
	"github.com/massnetorg/mass-core/wire"
	"massnet.org/mass/poc/engine"
)

// ---- environment ----------------------------------------------------------------------------------------------

type vsSK struct{ proofs []*engine.WorkSpaceProof }

func (k *vsSK) Start() error  { return nil }
func (k *vsSK) Stop() error   { return nil }
func (k *vsSK) Started() bool { return true }
func (k *vsSK) Type() string  { return "vs" }
func (k *vsSK) WorkSpaceIDs(flags engine.WorkSpaceStateFlags) ([]string, error) { return nil, nil }
func (k *vsSK) WorkSpaceInfos(flags engine.WorkSpaceStateFlags) ([]engine.WorkSpaceInfo, error) {
	return nil, nil
}
func (k *vsSK) GetProof(ctx context.Context, sid string, challenge pocutil.Hash, filter bool) (*engine.WorkSpaceProof, error) {
	return nil, nil
}
func (k *vsSK) GetProofs(ctx context.Context, flags engine.WorkSpaceStateFlags, challenge pocutil.Hash, filter bool) ([]*engine.WorkSpaceProof, error) {
	vsAskedFlags = flags
	return k.proofs, nil
}
func (k *vsSK) GetProofReader(ctx context.Context, sid string, challenge pocutil.Hash, filter bool) (engine.ProofReader, error) {
	return nil, nil
}
func (k *vsSK) GetProofsReader(ctx context.Context, flags engine.WorkSpaceStateFlags, challenge pocutil.Hash, filter bool) (engine.ProofReader, error) {
	return nil, nil
}
func (k *vsSK) ActOnWorkSpace(sid string, action engine.ActionType) error { return nil }
func (k *vsSK) ActOnWorkSpaces(flags engine.WorkSpaceStateFlags, action engine.ActionType) (map[string]error, error) {
	return nil, nil
}
func (k *vsSK) SignHash(sid string, hash [32]byte) (*pocec.Signature, error) { return nil, nil }

var vsAskedFlags engine.WorkSpaceStateFlags
var vsNows []int64 // successive readings of the clock (non-decreasing)
var vsNowIdx int
var vsStaleAt int // the staled() poll from which on a better tip is reported (0: never)
var vsPolls int
var vsInvalid []bool // proof i fails verification for the challenge

func vsNow() time.Time {
	i := vsNowIdx
	if i >= len(vsNows) {
		i = len(vsNows) - 1
	}
	vsNowIdx++
	return time.Unix(vsNows[i], 0)
}

// contract of runStaleMonitor: a flag that turns true once a better chain tip has arrived (the goroutine is outside)
func vsRunStaleMonitor(chain Chain, workSlot *uint64, prev *wire.Hash) (func(), func() bool, error) {
	return func() {}, func() bool { vsPolls++; return vsStaleAt != 0 && vsPolls >= vsStaleAt }, nil
}

var vsTicks int

func vsNewTicker(d time.Duration) *time.Ticker {
	ch := make(chan time.Time, 4)
	for i := 0; i < vsTicks; i++ {
		ch <- time.Time{}
	}
	return &time.Ticker{C: ch}
}
func vsTickerStop(t *time.Ticker) {}

func vsQ(i int, slot uint64) uint64 { return vsUFU64("quality", uint64(i), slot) }
func vsT(sec int64) uint64         { return vsUFU64("target", uint64(sec)) }

// contract of DefaultProof.VerifiedQuality: an error iff the proof does not verify for the challenge, else the
// proof's quality at the given slot (an arbitrary function of proof and slot)
func vsVerifiedQuality(p *poc.DefaultProof, pkh pocutil.Hash, challenge pocutil.Hash, filter bool, slot, height uint64) (*big.Int, error) {
	if vsInvalid[p.BL] {
		return nil, errors.New("invalid proof")
	}
	return new(big.Int).SetUint64(vsQ(p.BL, slot)), nil
}

// VsH_BestProof: syncGetBestProof for ≤2 offered proofs (error flags, binding flags, validity symbolic), arbitrary
// qualities per (proof, slot) and targets per timestamp, a non-decreasing clock, ≤2 ticks, quit closed or not, stale
// flag raised at any poll.
func VsH_BestProof() {
	n := 1 + vsFork(2, "nproofs")
	sk := &vsSK{}
	errFlag := make([]bool, n)
	bind := make([]bool, n)
	vsInvalid = make([]bool, n)
	for i := 0; i < n; i++ {
		errFlag[i], bind[i], vsInvalid[i] = vsNondetBool("proof.error"), vsNondetBool("proof.binding"), vsNondetBool("proof.invalid")
		wp := &engine.WorkSpaceProof{SpaceID: []string{"s0", "s1"}[i], Proof: &poc.DefaultProof{BL: i}}
		if errFlag[i] {
			wp.Error = errors.New("no proof")
		}
		sk.proofs = append(sk.proofs, wp)
	}
	// times are case-split (division by the slot length is left to constant folding): the template starts at slot 1000,
	// the clock starts one slot behind, level or one slot ahead and advances by 0 or one slot between readings
	start := int64(3000)
	vsNows = []int64{0, 0, 0, 0}
	prev := start + int64(vsFork(3, "clock.offset")-1)*3
	for i := range vsNows {
		prev += int64(vsFork(2, "clock.step")) * 3
		vsNows[i] = prev
	}
	vsNowIdx, vsPolls = 0, 0
	vsStaleAt = vsFork(3, "staleAt")
	vsTicks = 1 + vsFork(2, "ticks")
	quit := make(chan struct{})
	quitClosed := vsFork(2, "quit") == 1
	if quitClosed {
		close(quit)
	}
	tpl := &blockchain.PoCTemplate{Height: 5, Timestamp: time.Unix(start, 0),
		GetTarget:   func(t time.Time) *big.Int { return new(big.Int).SetUint64(vsT(t.Unix())) },
		PassBinding: func(p blockchain.Proof) bool { return bind[p.(*engine.WorkSpaceProof).Proof.BL] }}
	m := &PoCMiner{SpaceKeeper: sk}
	pt, err := m.syncGetBestProof(tpl, quit)
	vsAssert(vsAskedFlags == engine.SFMining, "only-mining-spaces-are-asked")
	if quitClosed {
		vsAssert(pt == nil && err != nil, "stopped-miner-submits-nothing")
	}
	if err != nil {
		vsAssert(pt == nil, "no-proof-with-error")
		vsReach("no-proof")
		return
	}
	startSlot := uint64(start) / pocSlot
	c := pt.proof.Proof.BL
	vsAssert(!errFlag[c] && bind[c] && !vsInvalid[c], "winner-is-valid-and-bound")
	ts := pt.time.Unix()
	slot := uint64(ts) / pocSlot
	vsAssert(ts >= start && (ts-start)%pocSlot == 0, "timestamp-advances-in-whole-slots")
	vsAssert(slot >= startSlot && slot-startSlot == uint64(ts-start)/pocSlot, "slot-and-timestamp-advance-together")
	vsAssert(vsQ(c, slot) > vsT(ts), "winner-quality-exceeds-target-at-its-timestamp")
	vsAssert(pt.quality.IsUint64() && pt.quality.Uint64() == vsQ(c, slot), "reported-quality-is-the-winners")
	for j := 0; j < n; j++ {
		if !errFlag[j] && bind[j] {
			vsAssert(vsQ(j, slot) <= vsQ(c, slot), "winner-has-the-best-quality-at-the-slot")
		}
	}
	// earliest eligible slot: no eligible proof beat the target at an earlier slot of this round
	for d := uint64(0); d < 8; d++ {
		s := startSlot + d
		if s < slot {
			for j := 0; j < n; j++ {
				if !errFlag[j] && bind[j] {
					vsAssert(vsQ(j, s) <= vsT(start+int64(d)*pocSlot), "no-earlier-eligible-slot-was-skipped")
				}
			}
		}
	}
	vsAssert(slot-startSlot < 8, "within-the-harness-slot-bound")
	// look-ahead: the slot is at most one ahead of some clock reading taken in this round
	ahead := false
	for _, now := range vsNows {
		if slot <= uint64(now)/pocSlot+allowAhead {
			ahead = true
		}
	}
	vsAssert(ahead, "slot-within-allowed-look-ahead")
	vsReach("proof-found")
}
