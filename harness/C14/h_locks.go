//go:build verif

package keystore

// VsH_LockDiscipline: each exported wallet method is run once on a wallet with one keystore; the engine logs every
// access to the shared objects (the manager and the address manager) together with the locks held, and the lock rules
// in harness.json turn every access made without the required mutex into an obligation. If all accesses to a shared
// field hold a common mutex there is no data race on it and the methods are serialised.
func VsH_LockDiscipline() {
	pass := vsNondetBytes(6, "pass")
	kmc, a := vsWallet(pass, "old")
	vsTrack(kmc, "manager")
	vsTrack(a, "addrmgr")
	// every acquisition of the manager mutex during the call (a method that releases and re-acquires it lets another
	// caller in between its steps: it is not one atomic operation even if every single access is protected)
	acquired := 0
	vsSetLockHook(func(lock string) {
		if len(lock) >= 24 && lock[len(lock)-24:] == "KeystoreManagerForPoC.mu" {
			acquired++
		}
	})
	m := vsFork(17, "method")
	switch m {
	case 0:
		kmc.IsLocked()
	case 1:
		kmc.Lock()
	case 2:
		kmc.ListKeystoreNames()
	case 3:
		kmc.GetManagedAddrManager()
	case 4:
		kmc.ChangeRemark(vsAcct, "new")
	case 5:
		kmc.DeleteKeystore(vsAcct, pass)
	case 6:
		kmc.GenerateNewPublicKey()
	case 7:
		kmc.GetPublicKeyOrdinal(nil)
	case 8:
		kmc.NextAddresses(vsAcct, false, 1)
	case 9:
		a.Remarks()
	case 10:
		a.Name()
	case 11:
		a.ListAddresses()
	case 12:
		a.CountAddresses()
	case 13:
		kmc.ExportKeystore(vsAcct, pass)
	case 14:
		kmc.Unlock(pass)
	case 15:
		a.ManagedAddresses()
	case 16:
		a.Address("x")
	}
	vsAssert(!vsAnyLockHeld(), "all-locks-released-on-return")
	if m <= 8 || m == 13 || m == 14 {
		vsAssert(acquired == 1, "manager-method-is-one-critical-section")
	}
	vsReach("returned")
}
