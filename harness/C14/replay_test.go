package keystore

// Native replay for C14 lock-discipline counterexamples: two goroutines on a real wallet (temporary leveldb, real
// crypto with fast scrypt) exercise the method named by the obligation against a writer of the same field, under the
// Go race detector (go test -race). The detector only confirms the pair the solver-side check named.

import (
	"encoding/json"
	"fmt"
	"os"
	"strings"
	"sync"
	"testing"

	"massnet.org/mass/config"
	walletdb "massnet.org/mass/poc/wallet/db"
	_ "massnet.org/mass/poc/wallet/db/ldb"
)

func TestVsReplayC14(t *testing.T) {
	raw, _ := os.ReadFile(os.Getenv("VS_MODEL"))
	var m struct {
		Obligation string `json:"obligation"`
	}
	json.Unmarshal(raw, &m)
	store, err := walletdb.CreateDB("leveldb", t.TempDir()+"/w")
	if err != nil {
		t.Fatal(err)
	}
	defer store.Close()
	pub, priv := []byte("@DJr@fL4H0O#$%0^n@V1"), []byte("@#XXd7O9xyDIWIbXX$lj")
	kmc, err := NewKeystoreManagerForPoC(store, pub, config.ChainParams)
	if err != nil {
		t.Fatal(err)
	}
	acct, err := kmc.NewKeystore(priv, nil, "first", config.ChainParams, &ScryptOptions{N: 16, R: 8, P: 1})
	if err != nil {
		t.Fatal(err)
	}
	var reader, writer func()
	switch {
	case strings.Contains(m.Obligation, "IsLocked"):
		reader = func() { kmc.IsLocked() }
		writer = func() { kmc.Lock() }
	case strings.Contains(m.Obligation, "GenerateNewPublicKey"):
		reader = func() { kmc.GenerateNewPublicKey() }
		writer = func() { kmc.NextAddresses(acct, false, 1) }
	case strings.Contains(m.Obligation, "updateManagedAddress"):
		am := kmc.GetManagedAddrManager()[0]
		reader = func() { am.ListAddresses(); am.CountAddresses() }
		writer = func() { kmc.NextAddresses(acct, false, 1) }
	case strings.Contains(m.Obligation, "Remarks"):
		am := kmc.GetManagedAddrManager()[0]
		reader = func() { _ = am.Remarks() }
		i := 0
		writer = func() { i++; kmc.ChangeRemark(acct, fmt.Sprintf("r%d", i)) }
	default:
		fmt.Println("VSREPLAY-NO-SCENARIO: no native scenario for", m.Obligation)
		return
	}
	var wg sync.WaitGroup
	wg.Add(2)
	go func() { defer wg.Done(); for i := 0; i < 20; i++ { reader() } }()
	go func() { defer wg.Done(); for i := 0; i < 20; i++ { writer() } }()
	wg.Wait()
	fmt.Println("VSREPLAY-RACE-RUN-COMPLETE (a DATA RACE report above confirms the violation)")
}
