//go:build verif

package cmap

// vsItems replaces ConcurrentMap.Items (which fans in over goroutines and channels) by a sequential walk over the
// shards: same contents, deterministic order (shard, insertion).
func vsItems(m ConcurrentMap) map[string]interface{} {
	tmp := make(map[string]interface{})
	for _, shard := range m {
		for k, v := range shard.items {
			tmp[k] = v
		}
	}
	return tmp
}
