//go:build verif

package keystore

// Cryptography by contract for the wallet harnesses. Everything here is "transparent": the models keep the structure
// the code relies on (determinism, authenticated decryption failing for another key or altered data, group laws,
// injective encodings) and none of the secrecy, so they serve functional properties only.

import (
	"bytes"
	"crypto/elliptic"
	"errors"
	"hash"
	"io"
	"math/big"

	"github.com/massnetorg/mass-core/massutil"
	"github.com/massnetorg/mass-core/pocec"
	"github.com/massnetorg/mass-core/wire"
	"massnet.org/mass/config"
)

// --- hashes and KDF: uninterpreted, injective on the arguments that occur in a run (A1) -----------------------
func vsScryptKey(password, salt []byte, N, r, p, keyLen int) ([]byte, error) {
	return vsUFBytesInj("scrypt", keyLen, password, salt), nil
}
func vsSha256(b []byte) [32]byte {
	var out [32]byte
	copy(out[:], vsUFBytesInj("sha256", 32, b))
	return out
}
func vsHash160(b []byte) []byte       { return vsUFBytesInj("hash160", 20, b) }
func vsDoubleHashB(b []byte) []byte   { return vsUFBytes("dsha256", 32, b) }
func vsHashH(b []byte) wire.Hash      { var h wire.Hash; copy(h[:], vsUFBytes("hashH", 32, b)); return h }

// --- randomness: fresh arbitrary bytes ------------------------------------------------------------------------
func vsReadFull(r io.Reader, buf []byte) (int, error) {
	copy(buf, vsNondetBytes(len(buf), "rand"))
	return len(buf), nil
}

// --- secretbox: authenticated encryption, transparent: box = tag(16) ‖ message with tag = MAC(key, nonce, message) -
func vsSeal(out, message []byte, nonce *[24]byte, key *[32]byte) []byte {
	tag := vsUFBytesInj("boxmac", 16, key[:], nonce[:], message)
	return append(append(out, tag...), message...)
}
func vsOpen(out, box []byte, nonce *[24]byte, key *[32]byte) ([]byte, bool) {
	if len(box) < 16 {
		return nil, false
	}
	msg := box[16:]
	tag := vsUFBytesInj("boxmac", 16, key[:], nonce[:], msg)
	// decided outright where the path condition decides it (keeps the "opened although it cannot" continuation, which no
	// model satisfies, out of the run); otherwise the comparison stays symbolic
	if vsProvablyEqual(tag, box[:16]) {
		return append(out, msg...), true
	}
	if vsProvablyDifferent(tag, box[:16]) {
		return nil, false
	}
	for i := 0; i < 16; i++ {
		if tag[i] != box[i] {
			return nil, false
		}
	}
	return append(out, msg...), true
}

// --- HMAC-SHA512 (hdkeychain) -----------------------------------------------------------------------------------
type vsHMAC struct{ key, data []byte }

func vsHMACNew(h func() hash.Hash, key []byte) hash.Hash { return &vsHMAC{key: key} }
func (m *vsHMAC) Write(p []byte) (int, error)            { m.data = append(m.data, p...); return len(p), nil }
func (m *vsHMAC) Sum(b []byte) []byte {
	// A1: the left half (the BIP32 tweak IL) is collision-free on the inputs of a run and a usable scalar (0 < IL < n fails
	// with probability < 2^-127) without a leading zero byte; the right half (chain code) is an arbitrary function
	out := append(vsUFBytesInj("hmac512L", 32, m.key, m.data), vsUFBytes("hmac512R", 32, m.key, m.data)...)
	il := new(big.Int).SetBytes(out[:32])
	vsAssume(il.Sign() != 0 && il.Cmp(vsS256c().N) < 0 && out[0] != 0)
	return append(b, out...)
}
func (m *vsHMAC) Reset()                                 { m.data = nil }
func (m *vsHMAC) Size() int                              { return 64 }
func (m *vsHMAC) BlockSize() int                         { return 128 }

// --- secp256k1 in discrete-log form (see C18): point = scalar, serialisation injective ---------------------------
var vsCurve *pocec.KoblitzCurve

func vsS256c() *pocec.KoblitzCurve {
	if vsCurve == nil {
		c := &pocec.KoblitzCurve{}
		c.CurveParams = vsCurveParams()
		vsCurve = c
	}
	return vsCurve
}
func vsScalarBaseMult(c *pocec.KoblitzCurve, k []byte) (*big.Int, *big.Int) {
	// every caller passes a canonical non-zero scalar (Child checks 0 < IL < n before use, private keys are validated on
	// parsing); stated as an assumption so that k·G is k itself rather than k mod n
	x := new(big.Int).SetBytes(k)
	vsAssume(x.Sign() != 0 && x.Cmp(vsS256c().N) < 0)
	return x, big.NewInt(2)
}
func vsIsOnCurve(c *pocec.KoblitzCurve, x, y *big.Int) bool { return true }
func vsAdd(c *pocec.KoblitzCurve, x1, y1, x2, y2 *big.Int) (*big.Int, *big.Int) {
	x := new(big.Int).Add(x1, x2)
	x.Mod(x, vsS256c().N)
	vsAssume(x.Sign() != 0) // A1: a sum of points is the point at infinity with negligible probability
	return x, big.NewInt(2)
}
func vsSerC(p *pocec.PublicKey) []byte {
	out := make([]byte, 33)
	out[0] = 2
	p.X.FillBytes(out[1:])
	return out
}
func vsParsePK(b []byte, c *pocec.KoblitzCurve) (*pocec.PublicKey, error) {
	if len(b) != 33 || b[0] != 2 {
		return nil, errors.New("bad pubkey")
	}
	return &pocec.PublicKey{Curve: c, X: new(big.Int).SetBytes(b[1:]), Y: big.NewInt(2)}, nil
}
func vsPrivKeyFromBytes(c interface{}, pk []byte) (*pocec.PrivateKey, *pocec.PublicKey) {
	d := new(big.Int).SetBytes(pk)
	vsAssume(d.Cmp(vsS256c().N) < 0) // canonical scalar (see vsScalarBaseMult)
	x := new(big.Int).Set(d)
	priv := &pocec.PrivateKey{D: d}
	priv.PublicKey.X, priv.PublicKey.Y = x, big.NewInt(2)
	return priv, (*pocec.PublicKey)(&priv.PublicKey)
}

// signatures: Sign(d, h) = (R = d mod N, S = h); Verify accepts iff R is the key's scalar and S the digest
func vsSign(p *pocec.PrivateKey, h []byte) (*pocec.Signature, error) {
	return &pocec.Signature{R: new(big.Int).Set(p.D), S: new(big.Int).SetBytes(h)}, nil
}
func vsVerify(sig *pocec.Signature, h []byte, pub *pocec.PublicKey) bool {
	return sig.R.Cmp(pub.X) == 0 && sig.S.Cmp(new(big.Int).SetBytes(h)) == 0
}

// --- text encodings: bijective stand-ins --------------------------------------------------------------------------
func vsB58Encode(b []byte) string { return string(b) }
func vsB58Decode(s string) []byte { return []byte(s) }
// Account identifiers: an injective function of the account public key, realised as a registry that hands out concrete
// names ("ac0", "ac1", ...) so that bucket navigation in the store model stays concrete. A key provably equal to a
// registered one (syntactically or by a solver proof under the path condition) gets that name; otherwise it is ASSUMED
// different from the registered ones (A1: account keys derived from different seeds do not collide) and gets a new name.
type vsAcctEnt struct {
	pk []byte
	id string
}

var vsAcctReg []vsAcctEnt

func vsPubKeyToAccountID(pk *pocec.PublicKey) (string, error) {
	b := vsSerC(pk)
	for _, r := range vsAcctReg {
		if vsProvablyEqual(r.pk, b) {
			return r.id, nil
		}
	}
	for _, r := range vsAcctReg {
		vsAssume(!bytes.Equal(r.pk, b))
	}
	id := "ac" + string(rune('0'+len(vsAcctReg)))
	vsAcctReg = append(vsAcctReg, vsAcctEnt{b, id})
	return id, nil
}
func vsNewAddressPubKeyHash(h []byte, net *config.Params) (*massutil.AddressPubKeyHash, error) {
	return massutil.NewAddressPubKeyHash(h, &config.Params{})
}
func vsEncodeAddress(a *massutil.AddressPubKeyHash) string { return "ms" + string(a.ScriptAddress()) }
func vsHDPrivToPub(id []byte) ([]byte, error)             { return []byte{4, 136, 178, 30}, nil }
func vsValidatePassphrase(p []byte) bool                  { return len(p) >= 6 && len(p) <= 40 }

var vsParams = &config.Params{HDCoinType: 297, HDPrivateKeyID: [4]byte{4, 136, 173, 228}, HDPublicKeyID: [4]byte{4, 136, 178, 30}}

func vsCurveParams() *elliptic.CurveParams {
	n, _ := new(big.Int).SetString("FFFFFFFFFFFFFFFFFFFFFFFFFFFFFFFEBAAEDCE6AF48A03BBFD25E8CD0364141", 16)
	return &elliptic.CurveParams{N: n, BitSize: 256}
}

// --- JSON as an inverse pair over the Keystore struct (field-wise identity) --------------------------------------
var vsExported *Keystore

func vsJSONMarshal(v interface{}) ([]byte, error) {
	if k, ok := v.(*Keystore); ok {
		c := *k
		vsExported = &c
	}
	return []byte{'{', '}'}, nil
}

func vsJSONUnmarshal(data []byte, v interface{}) error {
	k, ok := v.(*Keystore)
	if !ok || vsExported == nil {
		return errors.New("json")
	}
	*k = *vsExported
	return nil
}
