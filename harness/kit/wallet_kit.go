//go:build verif

package keystore

import (
	"errors"
	"math/big"

	"github.com/massnetorg/mass-core/pocec"
	"massnet.org/mass/config"

	"massnet.org/mass/poc/wallet/db"
	"massnet.org/mass/poc/wallet/keystore/snacl"
)

// ---- model of the wallet store: a tree of buckets with buffered transactions and fault injection -------------
// BeginTx works on a deep copy of the committed tree; Commit installs it, Rollback drops it. Every mutating bucket
// call and Commit is a fault point: the vsFaultAt-th one (1-based, chosen by the harness; 0 = none) fails without effect.

type vsKV struct {
	k string
	v []byte
}

type vsBkt struct {
	name string
	kvs  []vsKV
	subs []*vsBkt
}

func (b *vsBkt) clone() *vsBkt {
	n := &vsBkt{name: b.name}
	for _, e := range b.kvs {
		n.kvs = append(n.kvs, vsKV{e.k, append([]byte{}, e.v...)})
	}
	for _, s := range b.subs {
		n.subs = append(n.subs, s.clone())
	}
	return n
}

func vsBktEqual(a, b *vsBkt) bool {
	if a.name != b.name || len(a.kvs) != len(b.kvs) || len(a.subs) != len(b.subs) {
		return false
	}
	for i := range a.kvs {
		if a.kvs[i].k != b.kvs[i].k || string(a.kvs[i].v) != string(b.kvs[i].v) {
			return false
		}
	}
	for i := range a.subs {
		if !vsBktEqual(a.subs[i], b.subs[i]) {
			return false
		}
	}
	return true
}

type vsStoreT struct {
	root      *vsBkt // committed
	ops       int    // mutating operations seen so far in this harness run
	faultAt   int
	commits   int
	rollbacks int
}

var vsStore *vsStoreT

func (s *vsStoreT) fault() bool {
	s.ops++
	return s.ops == s.faultAt
}

type vsTxT struct {
	work *vsBkt
	done bool
}

type vsBucketT struct {
	tx   *vsTxT
	path []string
}

type vsMeta struct{ path []string }

func (m *vsMeta) Paths() []string { return m.path }
func (m *vsMeta) Name() string    { return m.path[len(m.path)-1] }
func (m *vsMeta) Depth() int      { return len(m.path) }

type vsDBT struct{}

func (vsDBT) Close() error { return nil }
func (vsDBT) BeginTx() (db.DBTransaction, error) {
	return &vsTxT{work: vsStore.root.clone()}, nil
}
func (vsDBT) BeginReadTx() (db.ReadTransaction, error) {
	return &vsTxT{work: vsStore.root.clone()}, nil
}

func (t *vsTxT) find(path []string) *vsBkt {
	b := t.work
	for _, p := range path {
		var nx *vsBkt
		for _, s := range b.subs {
			if s.name == p {
				nx = s
			}
		}
		if nx == nil {
			return nil
		}
		b = nx
	}
	return b
}

func (t *vsTxT) Commit() error {
	if vsStore.fault() {
		return errors.New("commit failed")
	}
	vsStore.commits++
	vsStore.root = t.work
	t.done = true
	return nil
}
func (t *vsTxT) Rollback() error { vsStore.rollbacks++; t.done = true; return nil }
func (t *vsTxT) TopLevelBucket(name string) db.Bucket {
	if t.find([]string{name}) == nil {
		return nil
	}
	return &vsBucketT{t, []string{name}}
}
func (t *vsTxT) BucketNames() ([]string, error) {
	var out []string
	for _, s := range t.work.subs {
		out = append(out, s.name)
	}
	return out, nil
}
func (t *vsTxT) FetchBucket(meta db.BucketMeta) db.Bucket {
	if meta == nil || t.find(meta.Paths()) == nil {
		return nil
	}
	return &vsBucketT{t, meta.Paths()}
}
func (t *vsTxT) CreateTopLevelBucket(name string) (db.Bucket, error) {
	if vsStore.fault() {
		return nil, errors.New("create bucket failed")
	}
	if t.find([]string{name}) == nil {
		t.work.subs = append(t.work.subs, &vsBkt{name: name})
	}
	return &vsBucketT{t, []string{name}}, nil
}
func (t *vsTxT) DeleteTopLevelBucket(name string) error { return db.ErrNotSupported }

func (b *vsBucketT) node() *vsBkt { return b.tx.find(b.path) }
func (b *vsBucketT) NewBucket(name string) (db.Bucket, error) {
	if vsStore.fault() {
		return nil, errors.New("new bucket failed")
	}
	n := b.node()
	for _, s := range n.subs {
		if s.name == name {
			return nil, db.ErrBucketExist
		}
	}
	n.subs = append(n.subs, &vsBkt{name: name})
	return &vsBucketT{b.tx, append(append([]string{}, b.path...), name)}, nil
}
func (b *vsBucketT) Bucket(name string) db.Bucket {
	p := append(append([]string{}, b.path...), name)
	if b.tx.find(p) == nil {
		return nil
	}
	return &vsBucketT{b.tx, p}
}
func (b *vsBucketT) BucketNames() ([]string, error) {
	var out []string
	for _, s := range b.node().subs {
		out = append(out, s.name)
	}
	return out, nil
}
func (b *vsBucketT) DeleteBucket(name string) error {
	if vsStore.fault() {
		return errors.New("delete bucket failed")
	}
	n := b.node()
	var keep []*vsBkt
	for _, s := range n.subs {
		if s.name != name {
			keep = append(keep, s)
		}
	}
	n.subs = keep
	return nil
}
func (b *vsBucketT) Put(key, value []byte) error {
	if len(value) == 0 {
		return db.ErrIllegalValue
	}
	if vsStore.fault() {
		return errors.New("put failed")
	}
	n := b.node()
	for i := range n.kvs {
		if n.kvs[i].k == string(key) {
			n.kvs[i].v = append([]byte{}, value...)
			return nil
		}
	}
	n.kvs = append(n.kvs, vsKV{string(key), append([]byte{}, value...)})
	return nil
}
func (b *vsBucketT) Delete(key []byte) error {
	if vsStore.fault() {
		return errors.New("delete failed")
	}
	n := b.node()
	var keep []vsKV
	for _, e := range n.kvs {
		if e.k != string(key) {
			keep = append(keep, e)
		}
	}
	n.kvs = keep
	return nil
}
func (b *vsBucketT) Get(key []byte) ([]byte, error) {
	for _, e := range b.node().kvs {
		if e.k == string(key) {
			return e.v, nil
		}
	}
	return nil, nil
}
func (b *vsBucketT) Clear() error {
	if vsStore.fault() {
		return errors.New("clear failed")
	}
	b.node().kvs = nil
	return nil
}
func (b *vsBucketT) GetByPrefix(p []byte) ([]*db.Entry, error) {
	var out []*db.Entry
	for _, e := range b.node().kvs {
		if len(e.k) >= len(p) && e.k[:len(p)] == string(p) {
			out = append(out, &db.Entry{Key: []byte(e.k), Value: e.v})
		}
	}
	return out, nil
}
func (b *vsBucketT) GetBucketMeta() db.BucketMeta { return &vsMeta{b.path} }

// ---- a wallet with one keystore, built directly (no key generation): store content and in-memory image agree ----

const vsAcct = "ac10hv0yf0rfxgwkxh8dhy97l8dh03wqcv8x60ukmk"

func vsSha512(b []byte) [64]byte {
	var out [64]byte
	copy(out[:], vsUFBytes("sha512", 64, b))
	return out
}

func vsWallet(pass []byte, remark string) (*KeystoreManagerForPoC, *AddrManager) {
	vsStore = &vsStoreT{root: &vsBkt{name: ""}}
	km := &vsBkt{name: "km"}
	am := &vsBkt{name: vsAcct}
	am.kvs = append(am.kvs, vsKV{string(remarkName), []byte(remark)}, vsKV{"mpriv", []byte{1, 2, 3}}, vsKV{"cpriv", []byte{4, 5, 6}},
		vsKV{string(externalChildNumName), []byte{1, 0, 0, 0}}, vsKV{string(internalChildNumName), []byte{0, 0, 0, 0}})
	am.subs = append(am.subs, &vsBkt{name: "pubkeys", kvs: []vsKV{{"k0", []byte{9}}}})
	ids := &vsBkt{name: "ids", kvs: []vsKV{{vsAcct, []byte(vsAcct)}}}
	km.subs = append(km.subs, am, ids)
	vsStore.root.subs = append(vsStore.root.subs, km)
	a := &AddrManager{
		keystoreName:  vsAcct,
		remark:        remark,
		addrs:         map[string]*ManagedAddress{},
		acctInfo:      &accountInfo{},
		branchInfo:    &branchInfo{},
		storage:       &vsMeta{[]string{"km", vsAcct}},
		unlocked:      true,
		masterKeyPriv: &snacl.SecretKey{Key: &snacl.CryptoKey{}},
		cryptoKeyPriv: &cryptoKey{},
	}
	for i := range a.privPassphraseSalt {
		a.privPassphraseSalt[i] = byte(i)
	}
	a.hashedPrivPassphrase = vsSha512(append(a.privPassphraseSalt[:], pass...))
	kmc := &KeystoreManagerForPoC{
		managedKeystores: map[string]*AddrManager{vsAcct: a},
		ksMgrMeta:        &vsMeta{[]string{"km"}},
		accountIDMeta:    &vsMeta{[]string{"km", "ids"}},
		unlocked:         true,
		db:               vsDBT{},
	}
	return kmc, a
}

// ---- key derivation by contract (used where a harness is about bookkeeping, locking or atomicity, not about keys) ----

var vsIssued int

// contract of AddrManager.nextAddresses: under a.mu, derive n fresh addresses, advance the branch counter in the
// transaction, return the managed addresses (no in-memory map update: that is updateManagedAddress's job)
func vsNextAddresses(a *AddrManager, tx db.DBTransaction, internal bool, n uint32, net *config.Params) ([]*ManagedAddress, error) {
	a.mu.Lock()
	defer a.mu.Unlock()
	am := tx.FetchBucket(a.storage)
	next, err := getChildNum(am, internal)
	if err != nil {
		return nil, err
	}
	var out []*ManagedAddress
	names := []string{"addr-a", "addr-b", "addr-c"}
	for i := uint32(0); i < n && int(i) < len(names); i++ {
		branch := ExternalBranch
		if internal {
			branch = InternalBranch
		}
		out = append(out, &ManagedAddress{pubKey: &pocec.PublicKey{X: big.NewInt(int64(7 + vsIssued)), Y: big.NewInt(2)}, address: names[vsIssued%3], keystoreName: a.keystoreName,
			derivationPath: DerivationPath{Account: 0, Branch: uint32(branch), Index: next + i}})
		vsIssued++
	}
	if err := updateChildNum(am, internal, next+n); err != nil {
		return nil, err
	}
	return out, nil
}

func vsSerializeCompressed(p *pocec.PublicKey) []byte {
	out := make([]byte, 33)
	out[0] = byte(p.Y.Int64())
	p.X.FillBytes(out[1:])
	return out
}

func vsParsePubKey(b []byte, c *pocec.KoblitzCurve) (*pocec.PublicKey, error) {
	if len(b) != 33 {
		return nil, errors.New("bad pubkey")
	}
	return &pocec.PublicKey{Curve: c, X: new(big.Int).SetBytes(b[1:]), Y: big.NewInt(int64(b[0]))}, nil
}

func vsS256() *pocec.KoblitzCurve { return nil }
