//go:build verif

package capacity

import (
	"errors"

	"github.com/massnetorg/mass-core/massutil/service"
	"github.com/massnetorg/mass-core/poc"
	"github.com/massnetorg/mass-core/poc/pocutil"
	"github.com/massnetorg/mass-core/pocec"
	"massnet.org/mass/poc/engine"
	"massnet.org/mass/poc/engine/massdb"
)

// ---- fake plot backend (massdb.MassDB is an interface: no override needed) ---------------------------------

type vsDB struct {
	idx        int
	bl         int
	pk         *pocec.PublicKey
	pkh        pocutil.Hash
	plotted    bool // table complete
	plotCalls  int
	stopCalls  int
	delCalls   int
	closeCalls int
	plotting   bool
	onPlot     func(d *vsDB) // environment actions at the yield point inside Plot()
}

func vsResult(err error) chan error { c := make(chan error, 1); c <- err; return c }

func (d *vsDB) Type() string  { return "vs" }
func (d *vsDB) Close() error  { d.closeCalls++; return nil }
func (d *vsDB) Ready() bool   { return d.plotted }
func (d *vsDB) BitLength() int { return d.bl }
func (d *vsDB) PubKeyHash() pocutil.Hash { return d.pkh }
func (d *vsDB) PubKey() *pocec.PublicKey { return d.pk }
func (d *vsDB) GetProof(challenge pocutil.Hash, filter bool) (*poc.DefaultProof, error) {
	return nil, errors.New("no proof")
}
func (d *vsDB) Progress() (bool, bool, float64) {
	if d.plotted {
		return true, true, 100
	}
	return false, false, 10
}
func (d *vsDB) Plot() chan error {
	d.plotCalls++
	d.plotting = true
	if d.onPlot != nil {
		d.onPlot(d)
	}
	d.plotting = false
	return vsResult(nil)
}
func (d *vsDB) StopPlot() chan error { d.stopCalls++; return vsResult(nil) }
func (d *vsDB) Delete() chan error   { d.delCalls++; return vsResult(nil) }

var _ massdb.MassDB = (*vsDB)(nil)

type vsWallet struct {
	locked bool
	next   uint32
	// recorder for the signing path (C05): which entry point, which key object, which bytes
	signMsgCalls, signHashCalls int
	signKey                     *pocec.PublicKey
	signArg                     []byte
}

// SignHash is not part of PoCWallet today; it is here so that the kit still type-checks (and the oracle fires) should the
// keeper be switched to the raw-digest entry point.
func (w *vsWallet) SignHash(pubKey *pocec.PublicKey, hash []byte) (*pocec.Signature, error) {
	w.signHashCalls++
	w.signKey, w.signArg = pubKey, append([]byte{}, hash...)
	return &pocec.Signature{}, nil
}

func (w *vsWallet) GenerateNewPublicKey() (*pocec.PublicKey, uint32, error) {
	o := w.next
	w.next++
	return &pocec.PublicKey{}, o, nil
}
func (w *vsWallet) GetPublicKeyOrdinal(*pocec.PublicKey) (uint32, bool) { return 0, false }
func (w *vsWallet) SignMessage(pubKey *pocec.PublicKey, hash []byte) (*pocec.Signature, error) {
	w.signMsgCalls++
	w.signKey, w.signArg = pubKey, append([]byte{}, hash...)
	return &pocec.Signature{}, nil
}
func (w *vsWallet) Unlock(password []byte) error { w.locked = false; return nil }
func (w *vsWallet) Lock()                         { w.locked = true }
func (w *vsWallet) IsLocked() bool                { return w.locked }

var vsSids = []string{"aa-24", "bb-24", "cc-24"}

// vsKeeper builds a keeper holding n workspaces directly (no file system, no wallet crypto). State, `using` and the
// backend's completion flag of every workspace are chosen by the caller.
func vsKeeper(n int, states []engine.WorkSpaceState, using []bool) (*SpaceKeeper, []*WorkSpace, []*vsDB) {
	sk := &SpaceKeeper{
		allowGenerateNewSpace: true,
		dbDirs:                []string{"/d0"},
		dbType:                "vs",
		wallet:                &vsWallet{},
		workSpacePaths:        make(map[string]*WorkSpacePath),
		workSpaceList:         make([]*WorkSpace, 0),
		queue:                 newPlotterQueue(),
		newQueuedWorkSpaceCh:  make(chan *queuedWorkSpace, plotterMaxChanSize),
		fileWatcher:           func() {},
	}
	sk.BaseService = service.NewBaseService(sk, "vs")
	sk.quit = make(chan struct{})
	for s := engine.FirstState; s <= allState; s++ {
		sk.workSpaceIndex = append(sk.workSpaceIndex, NewWorkSpaceMap())
	}
	var wss []*WorkSpace
	var dbs []*vsDB
	for i := 0; i < n; i++ {
		d := &vsDB{idx: i, bl: 24, pk: &pocec.PublicKey{}}
		d.pkh[0] = byte(i + 1)
		ws := &WorkSpace{
			id:      &SpaceID{pubKey: d.pk, pubKeyHash: d.pkh, bitLength: 24, ordinal: int64(i), str: vsSids[i]},
			db:      d,
			state:   states[i],
			using:   using[i],
			rootDir: "/d0",
		}
		sk.workSpaceIndex[allState].Set(vsSids[i], ws)
		sk.workSpaceIndex[states[i]].Set(vsSids[i], ws)
		if using[i] {
			sk.workSpaceList = append(sk.workSpaceList, ws)
		}
		wss = append(wss, ws)
		dbs = append(dbs, d)
	}
	return sk, wss, dbs
}

// vsInv: the representation invariant of the keeper.
func vsInv(sk *SpaceKeeper, wss []*WorkSpace, deleted []bool) bool {
	ok := true
	nPlotting := 0
	for i, ws := range wss {
		sid := vsSids[i]
		if deleted != nil && deleted[i] {
			if sk.workSpaceIndex[allState].Has(sid) {
				ok = false
			}
			continue
		}
		if !ws.state.IsValid() {
			ok = false
			continue
		}
		if ws.state == engine.Plotting {
			nPlotting++
		}
		for s := engine.FirstState; s <= engine.LastState; s++ {
			if sk.workSpaceIndex[s].Has(sid) != (s == ws.state) {
				ok = false
			}
		}
		if !sk.workSpaceIndex[allState].Has(sid) {
			ok = false
		}
		listed := false
		for _, e := range sk.workSpaceList {
			if e == ws {
				listed = true
			}
		}
		if listed != ws.using {
			ok = false
		}
	}
	return ok && nPlotting <= 1
}
