//go:build verif

package db

import (
	"bytes"
	"errors"

	"github.com/syndtr/goleveldb/leveldb"
	"github.com/syndtr/goleveldb/leveldb/iterator"
	"github.com/syndtr/goleveldb/leveldb/opt"
	"github.com/syndtr/goleveldb/leveldb/util"
	"massnet.org/mass/poc/wallet/db"
)

// ---- model of goleveldb's Transaction: a byte-string map with range iteration (T3 contract) --------------

type vsEntry struct {
	k, v []byte
	live bool
}

var vsStore []vsEntry
var vsBatchDel [][]byte
var vsCommitted, vsDiscarded int

func vsFind(key []byte) int {
	for i := range vsStore {
		if vsStore[i].live && bytes.Equal(vsStore[i].k, key) {
			return i
		}
	}
	return -1
}

func vsTrGet(tr *leveldb.Transaction, key []byte, ro *opt.ReadOptions) ([]byte, error) {
	if i := vsFind(key); i >= 0 {
		return vsStore[i].v, nil
	}
	return nil, leveldb.ErrNotFound
}

func vsTrPut(tr *leveldb.Transaction, key, value []byte, wo *opt.WriteOptions) error {
	k := append([]byte{}, key...)
	v := append([]byte{}, value...)
	if i := vsFind(key); i >= 0 {
		vsStore[i].v = v
		return nil
	}
	vsStore = append(vsStore, vsEntry{k, v, true})
	return nil
}

func vsTrDelete(tr *leveldb.Transaction, key []byte, wo *opt.WriteOptions) error {
	if i := vsFind(key); i >= 0 {
		vsStore[i].live = false
	}
	return nil
}

func vsBatchDelete(b *leveldb.Batch, key []byte) {
	vsBatchDel = append(vsBatchDel, append([]byte{}, key...))
}

func vsBatchLen(b *leveldb.Batch) int { return len(vsBatchDel) }

func vsTrWrite(tr *leveldb.Transaction, b *leveldb.Batch, wo *opt.WriteOptions) error {
	for _, k := range vsBatchDel {
		if i := vsFind(k); i >= 0 {
			vsStore[i].live = false
		}
	}
	vsBatchDel = nil
	return nil
}

func vsTrCommit(tr *leveldb.Transaction) error { vsCommitted++; return nil }
func vsTrDiscard(tr *leveldb.Transaction)      { vsDiscarded++ }

type vsIter struct {
	idx  []int
	pos  int
	done bool
}

func vsTrNewIterator(tr *leveldb.Transaction, slice *util.Range, ro *opt.ReadOptions) iterator.Iterator {
	it := &vsIter{pos: -1}
	for i := range vsStore {
		if !vsStore[i].live {
			continue
		}
		k := vsStore[i].k
		if slice != nil {
			if bytes.Compare(k, slice.Start) < 0 {
				continue
			}
			if slice.Limit != nil && bytes.Compare(k, slice.Limit) >= 0 {
				continue
			}
		}
		it.idx = append(it.idx, i)
	}
	return it
}

func (it *vsIter) First() bool          { it.pos = 0; return it.Valid() }
func (it *vsIter) Last() bool           { it.pos = len(it.idx) - 1; return it.Valid() }
func (it *vsIter) Seek(key []byte) bool { return false }
func (it *vsIter) Next() bool           { it.pos++; return it.Valid() }
func (it *vsIter) Prev() bool           { it.pos--; return it.Valid() }
func (it *vsIter) Valid() bool          { return !it.done && it.pos >= 0 && it.pos < len(it.idx) }
func (it *vsIter) Error() error         { return nil }
func (it *vsIter) Key() []byte {
	if !it.Valid() {
		return nil
	}
	return vsStore[it.idx[it.pos]].k
}
func (it *vsIter) Value() []byte {
	if !it.Valid() {
		return nil
	}
	return vsStore[it.idx[it.pos]].v
}
func (it *vsIter) Release()                            { it.done = true }
func (it *vsIter) SetReleaser(releaser util.Releaser)  {}
func (it *vsIter) SetErrorCallback(f func(err error)) {}

// ---- bucket construction through the real code ---------------------------------------------------------------

var vsNames = []string{"a", "ab", "b", "1", "2", "3", "a2", "a3", "a_b"}

// vsBucket builds a bucket of depth 1..3 with names drawn by vsFork from the adversarial candidate set.
func vsBucket(tx *LDBTransaction, label string) *LDBBucket {
	depth := 1 + vsFork(vsBound("maxdepth"), label+".depth")
	top, err := tx.CreateTopLevelBucket(vsNames[vsFork(len(vsNames), label+".n1")])
	vsAssume(err == nil)
	b := top.(*LDBBucket)
	for d := 2; d <= depth; d++ {
		nb, err := db.GetOrCreateBucket(b, vsNames[vsFork(len(vsNames), label+".n")])
		vsAssume(err == nil)
		b = nb.(*LDBBucket)
	}
	return b
}

func vsHasPrefix(s, p []byte) bool { return len(s) >= len(p) && bytes.Equal(s[:len(p)], p) }

// VsH_Layout: layout lemmas over two arbitrary buckets and arbitrary binary keys.
func VsH_Layout() {
	vsStore, vsBatchDel = nil, nil
	tx := &LDBTransaction{}
	b1 := vsBucket(tx, "b1")
	b2 := vsBucket(tx, "b2")
	k1 := vsNondetBytesUpTo(vsBound("keylen"), "k1")
	k2 := vsNondetBytesUpTo(vsBound("keylen"), "k2")
	vsAssume(len(k1) > 0 && len(k2) > 0)
	i1, e1 := b1.innerKey(k1, false)
	i2, e2 := b2.innerKey(k2, false)
	vsAssert(e1 == nil && e2 == nil, "innerkey-total-on-nonempty-keys")
	same := b1.path == b2.path
	// (a) injective flat keys
	if bytes.Equal(i1, i2) {
		vsAssert(same && bytes.Equal(k1, k2), "flat-key-injective")
	}
	// (b) no data key of another bucket falls under this bucket's scan prefix
	scan1, _ := b1.innerKey(nil, true)
	if vsHasPrefix(i2, scan1) {
		vsAssert(same, "scan-prefix-isolates-buckets")
	}
	// (c) data keys and bucket-index keys are disjoint, also as prefixes
	idx2 := []byte(joinBucketPath(bucketNameBucket, b2.path))
	vsAssert(!bytes.Equal(i1, idx2), "data-key-never-equals-index-key")
	vsAssert(!vsHasPrefix(idx2, scan1), "index-key-never-under-data-scan-prefix")
	// (d) a user prefix scan stays inside the bucket
	p := vsNondetBytesUpTo(vsBound("keylen"), "prefix")
	ip, _ := b1.innerKey(p, true)
	if vsHasPrefix(i2, ip) {
		vsAssert(same && vsHasPrefix(k2, p), "prefix-scan-stays-in-bucket")
	}
	// (e) metadata round trip
	meta := b1.GetBucketMeta()
	vsAssert(meta.Depth() == b1.depth && meta.Name() == b1.name, "meta-depth-name")
	fb := tx.FetchBucket(meta)
	vsAssert(fb != nil && fb.(*LDBBucket).path == b1.path && fb.(*LDBBucket).depth == b1.depth && fb.(*LDBBucket).name == b1.name, "fetchbucket-roundtrip")
	vsReach("layout-end")
}

// VsH_MapOps: one operation on bucket B from an arbitrary store content (≤ 2 foreign entries with symbolic flat
// keys + whatever creating the buckets wrote): only B's entries change, reads see writes, Clear/GetByPrefix/Delete
// are exact.
func VsH_MapOps() {
	vsStore, vsBatchDel = nil, nil
	tx := &LDBTransaction{}
	b := vsBucket(tx, "b")
	scan, _ := b.innerKey(nil, true)
	// arbitrary pre-existing entries (may or may not belong to B)
	nf := vsBound("foreign")
	for i := 0; i < nf; i++ {
		fk := vsNondetBytesUpTo(vsBound("flatlen"), "fk")
		vsAssume(len(fk) > 0 && vsFind(fk) < 0)
		vsStore = append(vsStore, vsEntry{fk, vsNondetBytes(1, "fv"), true})
	}
	pre := append([]vsEntry{}, vsStore...)
	k := vsNondetBytesUpTo(vsBound("keylen"), "k")
	vsAssume(len(k) > 0)
	ik, _ := b.innerKey(k, false)
	switch vsFork(4, "op") {
	case 0: // Put then Get
		v := vsNondetBytes(2, "v")
		vsAssert(b.Put(k, v) == nil, "put-ok")
		got, err := b.Get(k)
		vsAssert(err == nil && bytes.Equal(got, v), "get-sees-put")
		for i := range pre {
			if !bytes.Equal(pre[i].k, ik) {
				j := vsFind(pre[i].k)
				vsAssert(j >= 0 && bytes.Equal(vsStore[j].v, pre[i].v), "put-leaves-other-entries")
			}
		}
	case 1: // Delete
		vsAssert(b.Delete(k) == nil, "delete-ok")
		got, _ := b.Get(k)
		vsAssert(got == nil, "get-after-delete-nil")
		for i := range pre {
			if !bytes.Equal(pre[i].k, ik) {
				vsAssert(vsFind(pre[i].k) >= 0, "delete-leaves-other-entries")
			}
		}
	case 2: // Clear
		vsAssert(b.Clear() == nil, "clear-ok")
		for i := range pre {
			if vsHasPrefix(pre[i].k, scan) {
				vsAssert(vsFind(pre[i].k) < 0, "clear-removes-bucket-entries")
			} else {
				vsAssert(vsFind(pre[i].k) >= 0, "clear-leaves-foreign-entries")
			}
		}
	case 3: // GetByPrefix
		p := vsNondetBytesUpTo(vsBound("keylen"), "p")
		ip, _ := b.innerKey(p, true)
		es, err := b.GetByPrefix(p)
		vsAssert(err == nil, "getbyprefix-ok")
		n := 0
		for i := range pre {
			if pre[i].live && vsHasPrefix(pre[i].k, ip) {
				n++
				found := false
				for _, e := range es {
					if bytes.Equal(e.Key, pre[i].k[len(scan):]) && bytes.Equal(e.Value, pre[i].v) {
						found = true
					}
				}
				vsAssert(found, "getbyprefix-complete")
			}
		}
		vsAssert(len(es) == n, "getbyprefix-exact-count")
	}
	vsReach("mapops-end")
}

// ---- transaction wrapper ---------------------------------------------------------------------------------------

type vsDB struct{ beginErr bool }
type vsTx struct {
	commits, rollbacks *int
	commitErr          error
}

func (d *vsDB) Close() error { return nil }
func (d *vsDB) BeginTx() (db.DBTransaction, error) {
	if d.beginErr {
		return nil, errors.New("begin")
	}
	return vsTheTx, nil
}
func (d *vsDB) BeginReadTx() (db.ReadTransaction, error) {
	if d.beginErr {
		return nil, errors.New("begin")
	}
	return vsTheTx, nil
}

var vsTheTx *vsTx

func (t *vsTx) Commit() error                                     { *t.commits++; return t.commitErr }
func (t *vsTx) Rollback() error                                   { *t.rollbacks++; return nil }
func (t *vsTx) TopLevelBucket(name string) db.Bucket              { return nil }
func (t *vsTx) BucketNames() ([]string, error)                    { return nil, nil }
func (t *vsTx) FetchBucket(meta db.BucketMeta) db.Bucket          { return nil }
func (t *vsTx) CreateTopLevelBucket(name string) (db.Bucket, error) { return nil, nil }
func (t *vsTx) DeleteTopLevelBucket(name string) error            { return nil }

func VsH_TxWrapper() {
	commits, rollbacks := 0, 0
	var cerr error
	if vsNondetBool("commit_fails") {
		cerr = errors.New("commit")
	}
	vsTheTx = &vsTx{&commits, &rollbacks, cerr}
	d := &vsDB{beginErr: vsNondetBool("begin_fails")}
	var ferr error
	sentinels := []error{nil, errors.New("closure"), db.ErrFileExist, db.ErrFileNotExist, db.ErrBucketExist, db.ErrBucketNotFound, db.ErrInvalidBucketName,
		db.ErrIllegalKey, db.ErrIllegalValue, db.ErrNotSupported, db.ErrIllegalBucketPath, db.ErrInvalidArgument, db.ErrWriteNotAllowed,
		db.ErrDbUnknownType, db.ErrOpenDBFailed, db.ErrCreateDBFailed, leveldb.ErrNotFound}
	ferr = sentinels[vsFork(len(sentinels), "closure.err")]
	ran := false
	if vsFork(2, "kind") == 0 {
		err := db.Update(d, func(tx db.DBTransaction) error { ran = true; return ferr })
		if d.beginErr {
			vsAssert(err != nil && !ran && commits == 0, "update-begin-error")
		} else if ferr != nil {
			vsAssert(err == ferr && commits == 0 && rollbacks == 1, "update-closure-error-rolls-back-never-commits")
		} else {
			vsAssert(commits == 1 && rollbacks == 0 && err == cerr, "update-success-commits-once-and-returns-commit-error")
		}
	} else {
		err := db.View(d, func(tx db.ReadTransaction) error { ran = true; return ferr })
		vsAssert(commits == 0, "view-never-commits")
		if !d.beginErr {
			vsAssert(rollbacks == 1 && err == ferr, "view-rolls-back-and-returns-closure-error")
		}
	}
	vsReach("tx-end")
}

// VsH_DeleteBucket: removing child c1 of parent P erases exactly c1's subtree (its entries, its index entry, its
// children) and leaves every sibling c2 (names may be prefixes of one another) and the parent's own entries intact.
func VsH_DeleteBucket() {
	vsStore, vsBatchDel = nil, nil
	tx := &LDBTransaction{}
	parent := vsBucket(tx, "p")
	n1 := vsNames[vsFork(len(vsNames), "c1")]
	n2 := vsNames[vsFork(len(vsNames), "c2")]
	if n1 == n2 {
		return
	}
	b1, err1 := parent.NewBucket(n1)
	b2, err2 := parent.NewBucket(n2)
	vsAssume(err1 == nil && err2 == nil)
	// keys containing the separator (the bucket structure is what varies here; arbitrary keys are covered by layout/map_ops)
	k1, k2, kp := []byte("x_1"), []byte("_"), []byte(n1+"_x")
	vsAssume(b1.Put(k1, []byte{1}) == nil && b2.Put(k2, []byte{2}) == nil && parent.Put(kp, []byte{3}) == nil)
	// a grandchild under c1 and under c2
	g1, e1 := b1.NewBucket(vsNames[0])
	g2, e2 := b2.NewBucket(vsNames[0])
	vsAssume(e1 == nil && e2 == nil)
	vsAssume(g1.Put([]byte("x"), []byte{4}) == nil && g2.Put([]byte("x"), []byte{5}) == nil)

	vsAssert(parent.DeleteBucket(n1) == nil, "deletebucket-ok")

	vsAssert(parent.Bucket(n1) == nil, "deleted-bucket-is-gone")
	v1, _ := b1.Get(k1)
	vsAssert(v1 == nil, "deleted-bucket-entries-are-gone")
	vg1, _ := g1.Get([]byte("x"))
	vsAssert(vg1 == nil, "deleted-bucket-children-are-gone")
	vsAssert(parent.Bucket(n2) != nil, "sibling-bucket-survives")
	v2, _ := b2.Get(k2)
	vsAssert(len(v2) == 1 && v2[0] == 2, "sibling-entries-survive")
	vg2, _ := g2.Get([]byte("x"))
	vsAssert(len(vg2) == 1 && vg2[0] == 5, "sibling-children-survive")
	vp, _ := parent.Get(kp)
	vsAssert(len(vp) == 1 && vp[0] == 3, "parent-entries-survive")
	names, err := parent.BucketNames()
	vsAssert(err == nil && len(names) == 1 && names[0] == n2, "parent-lists-exactly-the-remaining-child")
	vsReach("deleted")
}
