//go:build verif

package db

import (
	"massnet.org/mass/poc/wallet/db"
)

// VsH_SiblingHandles: two child buckets obtained from the same parent handle (parent at depth 1..3, so the children
// at depth 2..4), the older handle used after the younger one was obtained: each handle keeps addressing its own
// bucket - entries, sub-buckets created through it, its listing and its meta path.
func VsH_SiblingHandles() {
	vsStore, vsBatchDel = nil, nil
	tx := &LDBTransaction{}
	top, err := tx.CreateTopLevelBucket("t")
	vsAssume(err == nil)
	parent := top.(*LDBBucket)
	depth := 1 + vsFork(3, "parent.depth")
	for d := 2; d <= depth; d++ {
		nb, err := db.GetOrCreateBucket(parent, []string{"", "", "m", "n"}[d])
		vsAssume(err == nil)
		parent = nb.(*LDBBucket)
	}
	c1, e1 := parent.NewBucket("ext")
	c2, e2 := parent.NewBucket("int")
	vsAssume(e1 == nil && e2 == nil)
	// the older handle is used after the younger one exists
	k := vsNondetBytes(2, "key")
	vsAssert(c1.Put(k, []byte{1}) == nil, "put-through-older-handle")
	v2, _ := c2.Get(k)
	vsAssert(v2 == nil, "entry-put-through-one-handle-is-not-in-the-sibling")
	v1, _ := c1.Get(k)
	vsAssert(len(v1) == 1 && v1[0] == 1, "entry-is-in-its-own-bucket")
	g, eg := c1.NewBucket("idx")
	vsAssert(eg == nil && g != nil, "sub-bucket-created-through-older-handle")
	vsAssert(c1.Bucket("idx") != nil && c2.Bucket("idx") == nil, "sub-bucket-lands-under-the-handle-it-was-created-through")
	n1, _ := c1.BucketNames()
	n2, _ := c2.BucketNames()
	vsAssert(len(n1) == 1 && n1[0] == "idx" && len(n2) == 0, "listing-shows-each-bucket-its-own-children")
	m1, m2 := c1.GetBucketMeta(), c2.GetBucketMeta()
	vsAssert(m1.Name() == "ext" && m2.Name() == "int" && m1.Depth() == depth+1 && m2.Depth() == depth+1, "meta-names-the-handles-own-bucket")
	f1 := tx.FetchBucket(m1)
	vsAssume(f1 != nil)
	vf, _ := f1.Get(k)
	vsAssert(len(vf) == 1 && vf[0] == 1, "meta-of-a-handle-fetches-that-bucket")
	vsReach("siblings-end")
}

// VsH_TopLevelRollback: a top-level bucket created in a transaction that is rolled back does not exist afterwards:
// not through TopLevelBucket, not in BucketNames, and GetOrCreateTopLevelBucket creates it properly (index entry
// written) in the next transaction. The store model drops the writes of a discarded transaction.
func VsH_TopLevelRollback() {
	vsStore, vsBatchDel = nil, nil
	tx1 := &LDBTransaction{}
	_, err := tx1.CreateTopLevelBucket("x")
	vsAssume(err == nil)
	// rollback: the writes of tx1 are discarded
	vsStore, vsBatchDel = nil, nil
	tx1.Rollback()
	tx2 := &LDBTransaction{}
	vsAssert(tx2.TopLevelBucket("x") == nil, "rolled-back-bucket-does-not-exist")
	names, _ := tx2.BucketNames()
	vsAssert(len(names) == 0, "rolled-back-bucket-is-not-listed")
	b, err := db.GetOrCreateTopLevelBucket(tx2, "x")
	vsAssert(err == nil && b != nil, "bucket-can-be-created-after-the-rollback")
	names, _ = tx2.BucketNames()
	vsAssert(len(names) == 1 && names[0] == "x", "created-bucket-is-indexed")
	vsReach("rollback-end")
}
