//go:build verif

package massdb_v1

// VsPrePlotOnly runs only the map-A pass (used by native replay drivers to produce a half-plotted space).
func VsPrePlotOnly(mdb *MassDBV1) error {
	mdb.stopPlotCh = make(chan struct{})
	return mdb.prePlotWork(NewMemCache(0))
}
