//go:build verif

package capacity

import (
	"os"
	"regexp"
	"time"

	"github.com/massnetorg/mass-core/poc/pocutil"
	"github.com/massnetorg/mass-core/pocec"
	"massnet.org/mass/poc/engine"
)

// ---- environment of generateInitialIndex -------------------------------------------------------------------------
// directory listing: concrete, well-formed plot-file names (the name filter itself - suffix and regular expression - is
// not the subject: both are stubbed to accept); name parsing by table; the wallet's answer for each key is symbolic;
// NewWorkSpace records what it is asked to open or create.

type vsFI struct{ name string }

func (f vsFI) Name() string       { return f.name }
func (f vsFI) Size() int64        { return 0 }
func (f vsFI) Mode() os.FileMode  { return 0 }
func (f vsFI) ModTime() time.Time { return time.Time{} }
func (f vsFI) IsDir() bool        { return false }
func (f vsFI) Sys() interface{}   { return nil }

var vsListing []string

func vsPrepareDirs(dirs []string) ([]string, [][]os.FileInfo) {
	var fis []os.FileInfo
	for _, n := range vsListing {
		fis = append(fis, vsFI{n})
	}
	return []string{"/d0"}, [][]os.FileInfo{fis}
}

func vsRegexpCompile(expr string) (*regexp.Regexp, error)  { return &regexp.Regexp{}, nil }
func vsRegexpMatchString(re *regexp.Regexp, s string) bool { return true }

type vsNameEnt struct {
	ordinal int
	pk      *pocec.PublicKey
	bl      int
}

var vsNames map[string]vsNameEnt // key: "<ordinal>_<pk>_<bl>" fields as they appear in the file name

func vsParseArgs(ordinalStr, pkStr, blStr string) (int, *pocec.PublicKey, int, error) {
	e := vsNames[ordinalStr+"_"+pkStr+"_"+blStr]
	return e.ordinal, e.pk, e.bl, nil
}

// wallet: one symbolic answer per key object
type vsOrdWallet struct {
	vsWallet
	keys    []*pocec.PublicKey
	ordinal []uint32
	exists  []bool
}

func (w *vsOrdWallet) GetPublicKeyOrdinal(pk *pocec.PublicKey) (uint32, bool) {
	for i, k := range w.keys {
		if k == pk {
			return w.ordinal[i], w.exists[i]
		}
	}
	return 0, false
}

type vsOpenRec struct {
	ordinal int64
	pk      *pocec.PublicKey
	bl      int
}

var vsOpened []vsOpenRec

func vsNewWorkSpace(dbType string, rootDir string, ordinal int64, pubKey *pocec.PublicKey, bitLength int) (*WorkSpace, error) {
	vsOpened = append(vsOpened, vsOpenRec{ordinal, pubKey, bitLength})
	d := &vsDB{bl: bitLength, pk: pubKey}
	return &WorkSpace{db: d, state: engine.Registered, id: NewSpaceID(ordinal, pubKey, bitLength), rootDir: rootDir}, nil
}

// per-directory bookkeeping: insertion order instead of the priority order (a float computed from the ordinal)
func vsPathAdd(p *WorkSpacePath, ws *WorkSpace) {
	sid := ws.id.String()
	if _, exists := p.exists[sid]; exists {
		return
	}
	p.exists[sid] = ws
	p.spaces = append(p.spaces, ws)
}

func vsDSHA(b []byte) pocutil.Hash {
	var h pocutil.Hash
	copy(h[:], vsUFBytes("dsha256", 32, b))
	return h
}

// key serialisation: one distinct byte per key object (injective on the keys of the harness)
func vsSerKey(p *pocec.PublicKey) []byte {
	if p == vsKeyA {
		return []byte{0xaa}
	}
	if p == vsKeyB {
		return []byte{0xbb}
	}
	return []byte{0}
}

var vsKeyA, vsKeyB = &pocec.PublicKey{}, &pocec.PublicKey{}

// VsH_InitialIndex: two plot files in the directory, named after (ordinal 3, key A, 24) and (ordinal 5, key B, 26); the
// wallet's knowledge of each key (known or not, and under which ordinal) is arbitrary. A file is opened and indexed
// exactly when the wallet knows its key under the ordinal in the file name; for every other file nothing is opened or
// created; what is indexed carries the name's ordinal, key and bit length.
func VsH_InitialIndex() {
	vsListing = []string{"3_AA_24.MASSDB", "5_BB_26.MASSDB"}
	vsNames = map[string]vsNameEnt{"3_AA_24": {3, vsKeyA, 24}, "5_BB_26": {5, vsKeyB, 26}}
	w := &vsOrdWallet{keys: []*pocec.PublicKey{vsKeyA, vsKeyB}}
	for i := 0; i < 2; i++ {
		o := uint32(vsNondetU8("wallet.ordinal"))
		vsAssume(o < 8)
		w.ordinal = append(w.ordinal, o)
		w.exists = append(w.exists, vsNondetBool("wallet.knows"))
	}
	sk := &SpaceKeeper{dbDirs: []string{"/d0"}, wallet: w, workSpacePaths: make(map[string]*WorkSpacePath), workSpaceList: make([]*WorkSpace, 0)}
	vsOpened = nil
	err := generateInitialIndex(sk, "vs", `^\d+_[A-F0-9]{66}_\d{2}\.MASSDB$`, ".MASSDB")
	vsAssert(err == nil, "index-generation-succeeds")
	okA := w.exists[0] && w.ordinal[0] == 3
	okB := w.exists[1] && w.ordinal[1] == 5
	openedA, openedB, other := false, false, false
	for _, r := range vsOpened {
		switch {
		case r.pk == vsKeyA && r.ordinal == 3 && r.bl == 24:
			openedA = true
		case r.pk == vsKeyB && r.ordinal == 5 && r.bl == 26:
			openedB = true
		default:
			other = true
		}
	}
	vsAssert(!other, "nothing-is-opened-or-created-under-another-ordinal-key-or-bit-length")
	vsAssert(openedA == okA && openedB == okB, "file-is-opened-iff-the-wallet-knows-its-key-under-the-names-ordinal")
	n := sk.workSpaceIndex[allState].Count()
	want := 0
	if okA {
		want++
	}
	if okB {
		want++
	}
	vsAssert(n == want, "exactly-the-matching-files-are-indexed")
	vsAssert(sk.workSpaceIndex[engine.Registered].Count() == want, "indexed-spaces-start-registered")
	vsReach("initial-index-end")
}
