//go:build verif

package capacity

import "github.com/massnetorg/mass-core/pocec"

// recorders for the legacy-name upgrade: what the new file name is formatted from, and which renames happen
var vsFmtArgs [][]interface{}
var vsRenames int

func vsSprintf(format string, a ...interface{}) string {
	vsFmtArgs = append(vsFmtArgs, a)
	return "formatted"
}
func vsRename(oldpath, newpath string) error { vsRenames++; return nil }

// VsH_UpgradeLegacyName: a plot file with a legacy name (<key>-<bit length>-B.MASSDB) is renamed to the native form
// whose ordinal field is the ordinal the wallet reports for that key (any ordinal), with the key text and bit length of
// the old name; a file whose key the wallet does not know is left alone. Otherwise the keeper refuses the renamed file
// on every later start (ordinal in the name differs from the wallet's).
func VsH_UpgradeLegacyName() {
	vsListing = []string{"AA-24-B.MASSDB"}
	vsNames = map[string]vsNameEnt{"0_AA_24": {0, vsKeyA, 24}}
	w := &vsOrdWallet{keys: []*pocec.PublicKey{vsKeyA}}
	o := vsNondetU32("wallet.ordinal")
	knows := vsNondetBool("wallet.knows")
	w.ordinal, w.exists = []uint32{o}, []bool{knows}
	sk := &SpaceKeeper{dbDirs: []string{"/d0"}, wallet: w}
	vsFmtArgs, vsRenames = nil, 0
	err := upgradeMassDBFile(sk)
	vsAssert(err == nil, "upgrade-succeeds")
	if !knows {
		vsAssert(vsRenames == 0, "file-of-an-unknown-key-is-not-renamed")
		vsReach("left-alone")
		return
	}
	vsAssert(vsRenames >= 1 && len(vsFmtArgs) == vsRenames, "legacy-file-of-a-known-key-is-renamed")
	for _, a := range vsFmtArgs {
		vsAssert(len(a) == 4, "new-name-has-ordinal-key-bit-length-and-tag")
		if len(a) != 4 {
			continue
		}
		ord, isU32 := a[0].(uint32)
		vsAssert(isU32 && ord == o, "new-name-carries-the-wallets-ordinal")
		key, _ := a[1].(string)
		bl, _ := a[2].(int)
		vsAssert(key == "AA" && bl == 24, "new-name-carries-the-old-names-key-and-bit-length")
	}
	vsReach("renamed")
}
