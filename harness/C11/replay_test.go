package capacity

// Native replay for C11 load_check counterexamples: a real plot file pair is created for key1 / bit length 8, renamed
// to the file names of key2 (and of bit length 10 for the bit-length obligation), and loaded through the real
// NewWorkSpace. Accepting it reproduces the violation.

import (
	"bytes"
	"encoding/json"
	"fmt"
	"os"
	"path/filepath"
	"strings"
	"testing"

	"github.com/massnetorg/mass-core/pocec"
	massdb_v1 "massnet.org/mass/poc/engine/massdb/massdb.v1"
)

func TestVsReplayC11(t *testing.T) {
	raw, _ := os.ReadFile(os.Getenv("VS_MODEL"))
	var m struct {
		Obligation string `json:"obligation"`
	}
	json.Unmarshal(raw, &m)
	dir := t.TempDir()
	sk1, _ := pocec.PrivKeyFromBytes(pocec.S256(), bytes.Repeat([]byte{7}, 32))
	sk2, _ := pocec.PrivKeyFromBytes(pocec.S256(), bytes.Repeat([]byte{9}, 32))
	pk1, pk2 := sk1.PubKey(), sk2.PubKey()
	mdb, err := massdb_v1.NewMassDBV1(dir, 7, pk1, 8)
	if err != nil {
		t.Fatal(err)
	}
	mdb.Close()
	wrongKey, wrongBL := pk1, 8
	switch {
	case strings.Contains(m.Obligation, "key-equals-name-key"):
		wrongKey = pk2
	case strings.Contains(m.Obligation, "bitlength-equals-name-bitlength"):
		wrongBL = 10
	default:
		fmt.Println("VSREPLAY-NOT-REPRODUCED: no native scenario for obligation", m.Obligation)
		return
	}
	files, _ := filepath.Glob(filepath.Join(dir, "*.massdb"))
	for _, f := range files {
		suffix := ".massdb"
		if strings.HasSuffix(f, "_a.massdb") {
			suffix = "_a.massdb"
		}
		nn := fmt.Sprintf("7_%x_%d%s", wrongKey.SerializeCompressed(), wrongBL, suffix)
		if err := os.Rename(f, filepath.Join(dir, nn)); err != nil {
			t.Fatal(err)
		}
	}
	ws, err := NewWorkSpace(massdb_v1.TypeMassDBV1, dir, 7, wrongKey, wrongBL)
	if err == nil && ws != nil {
		fmt.Printf("VSREPLAY-CONFIRMED: plot written for key %x / bl 8 was indexed as %s (state %v)\n", pk1.SerializeCompressed()[:6], ws.id.String()[:16]+"…", ws.state)
		return
	}
	fmt.Println("VSREPLAY-NOT-REPRODUCED: renamed plot rejected:", err)
}
