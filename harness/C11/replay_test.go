package capacity

// Native replay for C11 load_check counterexamples: a real plot file pair is created for key1 / bit length 8, renamed
// to the file names of key2 (and of bit length 10 for the bit-length obligation), and loaded through the real
// NewWorkSpace. Accepting it reproduces the violation.

import (
	"bytes"
	"encoding/json"
	"fmt"
	"os"
	"path/filepath"
	"strings"
	"testing"

	"github.com/massnetorg/mass-core/pocec"
	"massnet.org/mass/poc/engine"
	massdb_v1 "massnet.org/mass/poc/engine/massdb/massdb.v1"
)

func TestVsReplayC11(t *testing.T) {
	raw, _ := os.ReadFile(os.Getenv("VS_MODEL"))
	var m struct {
		Obligation string `json:"obligation"`
	}
	json.Unmarshal(raw, &m)
	sk1, _ := pocec.PrivKeyFromBytes(pocec.S256(), bytes.Repeat([]byte{7}, 32))
	sk2, _ := pocec.PrivKeyFromBytes(pocec.S256(), bytes.Repeat([]byte{9}, 32))
	pk1, pk2 := sk1.PubKey(), sk2.PubKey()
	if strings.Contains(m.Obligation, "incomplete-table-is-registered") || strings.Contains(m.Obligation, "complete-table-is-ready") {
		// map A complete, map B not started: must come up registered
		dir := t.TempDir()
		mdb, err := massdb_v1.NewMassDBV1(dir, 7, pk1, 8)
		if err != nil {
			t.Fatal(err)
		}
		if err := massdb_v1.VsPrePlotOnly(mdb); err != nil {
			t.Fatal(err)
		}
		mdb.Close()
		ws, err := NewWorkSpace(massdb_v1.TypeMassDBV1, dir, 7, pk1, 8)
		if err != nil {
			fmt.Println("VSREPLAY-NOT-REPRODUCED: load failed:", err)
			return
		}
		if ws.state != engine.Registered {
			fmt.Printf("VSREPLAY-CONFIRMED: pre-plotted but unplotted space (map B checkpoint 0) comes up in state %v\n", ws.state)
			return
		}
		fmt.Println("VSREPLAY-NOT-REPRODUCED: half-plotted space is registered")
		return
	}
	wrongKey, wrongBL := pk1, 8
	switch {
	case strings.Contains(m.Obligation, "key-equals-name-key"):
		wrongKey = pk2
	case strings.Contains(m.Obligation, "bitlength-equals-name-bitlength"):
		wrongBL = 10
	default:
		fmt.Println("VSREPLAY-NO-SCENARIO: no native scenario for obligation", m.Obligation)
		return
	}
	for _, full := range []bool{false, true} { // an unfinished plot, then a complete one
		dir := t.TempDir()
		mdb, err := massdb_v1.NewMassDBV1(dir, 7, pk1, 8)
		if err != nil {
			t.Fatal(err)
		}
		if full {
			if err := <-mdb.Plot(); err != nil {
				t.Fatal(err)
			}
		}
		mdb.Close()
		files, _ := filepath.Glob(filepath.Join(dir, "*.massdb"))
		for _, f := range files {
			suffix := ".massdb"
			if strings.HasSuffix(f, "_a.massdb") {
				suffix = "_a.massdb"
			}
			nn := fmt.Sprintf("7_%x_%d%s", wrongKey.SerializeCompressed(), wrongBL, suffix)
			if err := os.Rename(f, filepath.Join(dir, nn)); err != nil {
				t.Fatal(err)
			}
		}
		ws, err := NewWorkSpace(massdb_v1.TypeMassDBV1, dir, 7, wrongKey, wrongBL)
		if err == nil && ws != nil {
			fmt.Printf("VSREPLAY-CONFIRMED: plot (complete=%v) written for key %x / bl 8 was indexed as %s (state %v)\n", full, pk1.SerializeCompressed()[:6], ws.id.String()[:16]+"…", ws.state)
			return
		}
	}
	fmt.Println("VSREPLAY-NOT-REPRODUCED: renamed plots rejected")
}
