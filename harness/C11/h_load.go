//go:build verif

package capacity

import (
	"bytes"
	"errors"
	"io"
	"math/big"
	"os"

	"github.com/massnetorg/mass-core/poc/pocutil"
	"github.com/massnetorg/mass-core/pocec"
	"massnet.org/mass/poc/engine"
	"massnet.org/mass/poc/engine/massdb"
	massdb_v1 "massnet.org/mass/poc/engine/massdb/massdb.v1"
)

// ---- file system model: two plot files given by their (fully symbolic) 115-byte headers ---------------------

type vsPlotFile struct {
	hdr    []byte
	exists bool
	closed int
}

var vsFileA, vsFileB *vsPlotFile
var vsHandleA, vsHandleB *os.File
var vsPathA, vsPathB string
var vsOpenedA, vsOpenedB int

func vsOpenMapFile(path string) (*os.File, error) {
	if path == vsPathB && vsFileB.exists {
		vsOpenedB++
		return vsHandleB, nil
	}
	if path == vsPathA && vsFileA.exists {
		vsOpenedA++
		return vsHandleA, nil
	}
	return nil, massdb.ErrDBDoesNotExist
}

func vsReadAt(f *os.File, b []byte, off int64) (int, error) {
	pf := vsFileB
	if f == vsHandleA {
		pf = vsFileA
	}
	if off != 0 {
		return 0, io.EOF
	}
	for i := range b {
		if i < len(pf.hdr) {
			b[i] = pf.hdr[i]
		} else {
			b[i] = 0
		}
	}
	return len(b), nil
}

func vsClose(f *os.File) error {
	if f == vsHandleA {
		vsFileA.closed++
	} else {
		vsFileB.closed++
	}
	return nil
}

func vsCreateHashMap(filePath string, typ massdb_v1.MapType, bl int, pubKey *pocec.PublicKey) error {
	return errors.New("creation not part of this harness")
}

// public keys: prefix byte kept in Y, X = the 32 remaining bytes (an injective, invertible stand-in for point
// (de)compression; curve membership is an arbitrary predicate)
func vsParsePubKey(b []byte, c *pocec.KoblitzCurve) (*pocec.PublicKey, error) {
	if len(b) != 33 || (b[0] != 2 && b[0] != 3) || vsNondetBool("not_on_curve") {
		return nil, errors.New("bad pubkey")
	}
	return &pocec.PublicKey{Curve: c, X: new(big.Int).SetBytes(b[1:]), Y: big.NewInt(int64(b[0]))}, nil
}
func vsSerializeCompressed(p *pocec.PublicKey) []byte {
	out := make([]byte, 33)
	out[0] = byte(p.Y.Int64())
	p.X.FillBytes(out[1:])
	return out
}
func vsS256() *pocec.KoblitzCurve { return nil }

func vsDoubleSHA256(b []byte) pocutil.Hash {
	var h pocutil.Hash
	copy(h[:], vsUFBytes("dsha256", 32, b))
	return h
}

func vsLE64(b []byte) uint64 {
	var v uint64
	for i := 7; i >= 0; i-- {
		v = v<<8 | uint64(b[i])
	}
	return v
}

// VsH_LoadCheck: NewWorkSpace over plot files with arbitrary headers, for a fixed file name (ordinal, key, bit length).
func VsH_LoadCheck() {
	nameKeyBytes := append([]byte{2}, bytes.Repeat([]byte{0x11}, 32)...)
	nameKey, _ := vsParsePubKeyConcrete(nameKeyBytes)
	nameBL := 24
	vsPathA, vsPathB = "/d/7_02"+repeat("11", 32)+"_24_a.massdb", "/d/7_02"+repeat("11", 32)+"_24.massdb"
	vsHandleA, vsHandleB = &os.File{}, &os.File{}
	vsOpenedA, vsOpenedB = 0, 0
	vsFileB = &vsPlotFile{hdr: vsNondetBytes(115, "hdrB"), exists: vsFork(2, "B.exists") == 1}
	vsFileA = &vsPlotFile{hdr: vsNondetBytes(115, "hdrA"), exists: vsFork(2, "A.exists") == 1}

	ws, err := NewWorkSpace("massdb.v1", "/d", 7, nameKey, nameBL)

	hb, ha := vsFileB.hdr, vsFileA.hdr
	if err != nil {
		vsAssert(ws == nil, "rejected-file-yields-no-workspace")
		vsReach("rejected")
		return
	}
	vsAssert(vsFileB.exists, "indexed-only-if-main-file-exists")
	vsAssert(bytes.Equal(hb[0:32], massdb.DBFileCode), "main-file-code-checked")
	vsAssert(vsLE64(hb[32:40]) == 1, "main-file-version-checked")
	vsAssert(massdb_v1.MapType(hb[41]) == massdb_v1.MapTypeHashMapB, "main-file-is-map-B")
	vsAssert(bytes.Equal(hb[82:115], nameKeyBytes), "main-file-header-key-equals-name-key")
	vsAssert(int(hb[40]) == nameBL, "main-file-header-bitlength-equals-name-bitlength")
	vsAssert(bytes.Equal(hb[50:82], vsUFBytes("dsha256", 32, hb[82:115])), "main-file-key-hash-checked")
	cpB := vsLE64(hb[42:50])
	plotted := cpB >= (uint64(1)<<uint(hb[40]))/2
	if plotted {
		vsAssert(ws.state == engine.Ready, "complete-table-is-ready")
		vsAssert(vsOpenedA == 0, "map-A-not-needed-when-plotted")
	} else {
		vsAssert(ws.state == engine.Registered, "incomplete-table-is-registered")
		vsAssert(vsFileA.exists, "unfinished-plot-needs-map-A")
		vsAssert(bytes.Equal(ha[0:32], massdb.DBFileCode) && vsLE64(ha[32:40]) == 1 && massdb_v1.MapType(ha[41]) == massdb_v1.MapTypeHashMapA, "map-A-file-code-version-type-checked")
		vsAssert(bytes.Equal(ha[82:115], nameKeyBytes), "map-A-header-key-equals-name-key")
		vsAssert(int(ha[40]) == nameBL, "map-A-header-bitlength-equals-name-bitlength")
	}
	vsAssert(ws.id.BitLength() == nameBL && ws.id.Ordinal() == 7, "workspace-identity-from-name")
	vsReach("indexed")
}

func repeat(s string, n int) string {
	out := ""
	for i := 0; i < n; i++ {
		out += s
	}
	return out
}

func vsParsePubKeyConcrete(b []byte) (*pocec.PublicKey, error) {
	return &pocec.PublicKey{X: new(big.Int).SetBytes(b[1:]), Y: big.NewInt(int64(b[0]))}, nil
}
