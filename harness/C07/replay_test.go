package massdb_v1

// Native replay of the C07 record-alignment counterexample. The solver's counterexample lives at toy scale (bit length 7,
// 3-byte records, 32-byte read buffer). Its production counterpart (bit lengths 34..40: 10-byte pairs, 2^26-byte buffer,
// >= 80 GiB of map A, 2^33 loop iterations) cannot be run here, so the driver runs the REAL prePlotWork/plotWork of the
// current tree with real SHA-256 P/FB, real files and the real bufio.Reader at bit length 18 (3-byte records, 768 KiB of
// map A), with one constant scaled by the replay overlay exactly as in the model: minMapABufMem 64 MiB -> 4 KiB, so that
// map A again spans several buffer fills and the pair size (6) does not divide the buffer size. Map B is compared with
// the construction computed here from map A.

import (
	"bytes"
	"encoding/json"
	"fmt"
	"os"
	"testing"

	"github.com/massnetorg/mass-core/poc/pocutil"
	"github.com/massnetorg/mass-core/pocec"
)

func TestVsReplayC07(t *testing.T) {
	raw, err := os.ReadFile(os.Getenv("VS_MODEL"))
	if err != nil {
		t.Fatal(err)
	}
	var m struct {
		Harness, Obligation string
	}
	json.Unmarshal(raw, &m)
	if m.Harness != "plot_b_record_align" {
		fmt.Println("VSREPLAY-NO-SCENARIO: no native scenario for", m.Harness, m.Obligation)
		return
	}
	const bl = 18
	rs := pocutil.RecordSize(bl)
	if minMapABufMem >= (1<<bl)*rs {
		fmt.Println("VSREPLAY-NO-SCENARIO: read buffer not scaled below the size of map A")
		return
	}
	sk, _ := pocec.PrivKeyFromBytes(pocec.S256(), bytes.Repeat([]byte{7}, 32))
	mdb, err := NewMassDBV1(t.TempDir(), 1, sk.PubKey(), bl)
	if err != nil {
		t.Fatal(err)
	}
	mdb.stopPlotCh = make(chan struct{})
	cache := NewMemCache(0)
	if err := mdb.prePlotWork(cache); err != nil {
		t.Fatal(err)
	}
	fileA, _ := os.ReadFile(mdb.filePathA)
	a := fileA[LenMetaInfo:]
	volume, half := 1<<bl, 1<<(bl-1)
	pkh := mdb.HashMapA.pkHash
	ref := make([]byte, 2*volume*rs)
	zero := make([]byte, rs)
	for y := 0; y < half; y++ {
		x, xp := a[2*y*rs:(2*y+1)*rs], a[(2*y+1)*rs:(2*y+2)*rs]
		if bytes.Equal(x, zero) || bytes.Equal(xp, zero) {
			continue
		}
		z := int(pocutil.FB(x, xp, bl, pkh))
		copy(ref[2*z*rs:], x)
		copy(ref[(2*z+1)*rs:], xp)
		zp := int(pocutil.FB(xp, x, bl, pkh))
		copy(ref[2*zp*rs:], xp)
		copy(ref[(2*zp+1)*rs:], x)
	}
	if err := mdb.plotWork(cache); err != nil {
		fmt.Println("VSREPLAY-CONFIRMED: plotWork failed:", err)
		return
	}
	fileB, _ := os.ReadFile(mdb.filePathB)
	b := fileB[LenMetaInfo:]
	bad := 0
	for z := 0; z < volume; z++ {
		if !bytes.Equal(b[2*z*rs:(2*z+2)*rs], ref[2*z*rs:(2*z+2)*rs]) {
			bad++
		}
	}
	if bad > 0 {
		fmt.Printf("VSREPLAY-CONFIRMED: map B differs from the construction in %d of %d entries (bit length %d, %d-byte records, %d-byte read buffer)\n", bad, volume, bl, rs, minMapABufMem)
		return
	}
	fmt.Println("VSREPLAY-NOT-REPRODUCED: map B equals the construction")
}
