package massdb_v1

// Native replay of C10 counterexamples at bit length 8 (smallest convenient real size): a real plot file pair on a
// temporary directory, the recorded checkpoint of map A set to the model's value, then the real Plot() under a watchdog;
// the result is compared with an uninterrupted plot of the same key.

import (
	"bytes"
	"encoding/binary"
	"encoding/json"
	"fmt"
	"os"
	"regexp"
	"strconv"
	"strings"
	"testing"
	"time"

	"github.com/massnetorg/mass-core/pocec"
)

type vsModel struct {
	Harness    string            `json:"harness"`
	Obligation string            `json:"obligation"`
	Case       string            `json:"case"`
	Model      map[string]string `json:"model"`
}

func (m *vsModel) caseInt(label string) int {
	re := regexp.MustCompile(label + `=(\d+)`)
	if s := re.FindStringSubmatch(m.Case); s != nil {
		n, _ := strconv.Atoi(s[1])
		return n
	}
	return -1
}

func vsPlotToEnd(t *testing.T, mdb *MassDBV1, limit time.Duration) bool {
	done := make(chan error, 1)
	go func() { done <- <-mdb.Plot() }()
	select {
	case err := <-done:
		if err != nil {
			t.Log("plot error:", err)
		}
		return true
	case <-time.After(limit):
		return false
	}
}

func TestVsReplayC10(t *testing.T) {
	raw, err := os.ReadFile(os.Getenv("VS_MODEL"))
	if err != nil {
		t.Fatal(err)
	}
	var m vsModel
	json.Unmarshal(raw, &m)
	const bl = 8
	sk, _ := pocec.PrivKeyFromBytes(pocec.S256(), bytes.Repeat([]byte{7}, 32))
	pk := sk.PubKey()
	// reference: uninterrupted plot
	dirRef, dir := t.TempDir(), t.TempDir()
	ref, err := NewMassDBV1(dirRef, 1, pk, bl)
	if err != nil {
		t.Fatal(err)
	}
	if !vsPlotToEnd(t, ref, 60*time.Second) {
		t.Fatal("reference plot did not finish")
	}
	refB, _ := os.ReadFile(ref.filePathB)
	// interrupted state: recorded checkpoint c on map A (what a completed first window leaves is 1)
	c := uint64(1)
	switch m.caseInt("resume") {
	case 0:
		c = 0
	case 2:
		c = []uint64{2, 17, 34, 63}[m.caseInt("checkpoint")]
		if v, ok := m.Model["checkpoint"]; ok {
			c, _ = strconv.ParseUint(strings.TrimPrefix(v, "0x"), 16, 64)
		}
	}
	mdb, err := NewMassDBV1(dir, 1, pk, bl)
	if err != nil {
		t.Fatal(err)
	}
	// records below the checkpoint must already be final: produce them by plotting a copy fully, then rewinding
	var b8 [8]byte
	binary.LittleEndian.PutUint64(b8[:], c)
	if c > 0 {
		// write the construction for slots < c by running the pre-plot once, then rewind the checkpoint
		cache := NewMemCache(0)
		mdb.stopPlotCh = make(chan struct{})
		if err := mdb.prePlotWork(cache); err != nil {
			t.Fatal(err)
		}
		// wipe slots >= c so that only the durable prefix survives
		zero := make([]byte, (1<<bl)-int(c))
		mdb.HashMapA.data.WriteAt(zero, int64(LenMetaInfo)+int64(c))
	}
	mdb.HashMapA.data.WriteAt(b8[:], PosCheckpoint)
	mdb.HashMapA.checkpoint = 0
	fmt.Printf("replaying resume from recorded checkpoint %d at bl=%d\n", c, bl)
	finished := vsPlotToEnd(t, mdb, 20*time.Second)
	if !finished {
		fmt.Println("VSREPLAY-CONFIRMED: resumed plot does not terminate within 20s (an uninterrupted plot takes milliseconds): window loop stuck")
		return
	}
	gotB, _ := os.ReadFile(mdb.filePathB)
	if !bytes.Equal(gotB[LenMetaInfo:], refB[LenMetaInfo:]) {
		fmt.Println("VSREPLAY-CONFIRMED: resumed plot produced a different table than the uninterrupted plot")
		return
	}
	fmt.Println("VSREPLAY-NOT-REPRODUCED: resumed plot terminated with the same table")
}
