//go:build verif

package massdb_v1

import (
	"github.com/massnetorg/mass-core/poc/pocutil"
	"github.com/massnetorg/mass-core/pocec"
)

// records padded to vsForcedRS bytes when set (the code computes the record size from the bit length)
var vsForcedRS int

func vsRecordSizeOv(bl int) int {
	if vsForcedRS > 0 {
		return vsForcedRS
	}
	return (bl + 7) >> 3
}

// VsH_PlotBRecordAlign: the map-B pass with records wider than one byte. In production the record size is 3, 4 or 5
// bytes (bit lengths <=24, 26..32, 34..40) and map A is read through a 64 MiB bufio.Reader; a pair of records is
// 2*recordSize bytes, which divides the buffer size only for record size 4. The harness keeps that relation at toy
// scale: bit length 7 with records padded to 3 bytes (384 bytes of map A) read through the real bufio.Reader with a
// 32-byte buffer (vsNewReaderSize), i.e. map A spans several buffer fills and 6 does not divide 32 - the situation
// of bit lengths 34..40 (80 GiB.. of map A, 10-byte pairs, 2^26-byte buffer).
func VsH_PlotBRecordAlign() {
	bl := vsBound("blB")
	rs := 3
	vsForcedRS = rs
	volume := 1 << uint(bl)
	half := volume / 2
	vsRecordSize = rs
	vsMakeTable(volume, 0)
	vsWindows, vsLastRequired, vsFailAt = 0, 0, 0
	vsResumeFull = true // one window: the cache gets what it asks for
	fA, fB := vsNewFile(volume*rs), vsNewFile(2*volume*rs)
	va, vb := vsFiles[fA], vsFiles[fB]
	for x := 0; x < volume; x++ {
		va.data[vsSlotOfY(vsPTable[x], bl, pocutil.PoCValue(half))*rs] = byte(x)
	}
	hmA := HashMap{data: fA, bl: bl, volume: pocutil.PoCValue(volume), offset: LenMetaInfo, step: 1, recordSize: rs, pk: &pocec.PublicKey{}}
	hmB := HashMap{data: fB, bl: bl, volume: pocutil.PoCValue(volume), offset: LenMetaInfo, step: 2, recordSize: rs, pk: &pocec.PublicKey{}}
	hmA.checkpoint = pocutil.PoCValue(volume)
	mdb := &MassDBV1{HashMapA: &HashMapA{HashMap: hmA, half: pocutil.PoCValue(half)}, HashMapB: &HashMapB{HashMap: hmB}, bl: bl, pubKey: &pocec.PublicKey{}, filePathA: "A", filePathB: "B"}
	mdb.HashMapA.UpdateCheckpoint()
	ref := make([]byte, 2*volume) // ref[2z], ref[2z+1]: the pair stored under z
	for y := 0; y < half; y++ {
		x, xp := va.data[2*y*rs], va.data[(2*y+1)*rs]
		if x != 0 && xp != 0 {
			z := int(vsFB([]byte{x}, []byte{xp}, bl, hmA.pkHash))
			ref[2*z], ref[2*z+1] = x, xp
			zp := int(vsFB([]byte{xp}, []byte{x}, bl, hmA.pkHash))
			ref[2*zp], ref[2*zp+1] = xp, x
		}
	}
	vsRemoved = nil
	vsStopCh = make(chan struct{})
	vsStopped, vsReadsSeen, vsStopAtRead = false, 0, 0
	mdb.stopPlotCh = vsStopCh
	mdb.plotting = 1
	mdb.wg.Add(1)
	res := make(chan error, 1)
	mdb.executePlot(res)
	err := <-res
	vsAssert(err == nil, "plot-pass-succeeds")
	vsAssert(mdb.HashMapB.ReadCheckpoint() == pocutil.PoCValue(half), "final-checkpoint-is-half")
	for z := 0; z < volume; z++ {
		ok := vb.data[2*z*rs] == ref[2*z] && vb.data[(2*z+1)*rs] == ref[2*z+1] &&
			vb.data[2*z*rs+1] == 0 && vb.data[2*z*rs+2] == 0 && vb.data[(2*z+1)*rs+1] == 0 && vb.data[(2*z+1)*rs+2] == 0
		vsAssert(ok, "map-B-equals-the-construction-with-multi-byte-records")
	}
	vsReach("record-align-complete")
}
