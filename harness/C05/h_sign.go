//go:build verif

package keystore

import (
	"github.com/massnetorg/mass-core/pocec"
	"github.com/massnetorg/mass-core/wire"
)

// vsSigOK: the signature contract of the kit (R = signer's scalar, S = digest): sig verifies under pk for digest h iff
// it was made with the private key of pk over h.
func vsSigOK(sig *pocec.Signature, h []byte, pk *pocec.PublicKey) bool {
	return sig != nil && sig.Verify(h, pk)
}

// VsH_Sign: keys issued on both branches while locked and/or unlocked, then a history ending in an unlocked wallet
// (plain unlock, relock+unlock, passphrase change, restart); every issued key signs an arbitrary digest and the signature
// verifies under exactly that key and digest; foreign keys and a locked wallet are refused.
func VsH_Sign() {
	kmc, a, pub, priv, id := vsNewWallet()
	h := vsNondetBytes(32, "digest")
	hist := vsFork(7, "history")
	if hist == 1 || hist == 5 {
		vsAssume(kmc.Unlock(priv) == nil) // keys issued while unlocked (private derivation)
	}
	// one internal address first, then a plot key (external), so that re-derivation visits an external key after an internal one
	// (the export/import history runs with the plot key only, so that the two branch counts in the file differ)
	withInternal := hist != 6
	var pkI *pocec.PublicKey
	if withInternal {
		in, err := kmc.NextAddresses(id, true, 1)
		vsAssume(err == nil && len(in) == 1)
		pkI = in[0].pubKey
	}
	pkE, _, err := kmc.GenerateNewPublicKey()
	vsAssume(err == nil && pkE != nil)
	cur := priv
	switch hist {
	case 0, 1:
		if hist == 0 {
			_, err := kmc.SignHash(pkE, h)
			vsAssert(err != nil, "locked-wallet-refuses-to-sign")
		}
	case 2: // relock
		vsAssume(kmc.Unlock(priv) == nil)
		kmc.Lock()
		_, err := kmc.SignHash(pkE, h)
		vsAssert(err != nil, "relocked-wallet-refuses-to-sign")
	case 3: // passphrase change while locked
		np := vsNondetBytes(6, "newpass")
		vsAssume(string(np) != string(priv) && string(np) != string(pub))
		vsAssume(kmc.ChangePrivPassphrase(priv, np, &ScryptOptions{N: 16, R: 8, P: 1}) == nil)
		cur = np
	case 6: // export, then import into another (empty) wallet: the keys issued here must sign there
		file, err := kmc.ExportKeystore(id, priv)
		vsAssume(err == nil)
		vsStore = &vsStoreT{root: &vsBkt{name: ""}}
		k2, err := NewKeystoreManagerForPoC(vsDBT{}, pub, vsParams)
		vsAssume(err == nil)
		id2, _, err := k2.ImportKeystore(file, priv, nil)
		vsAssume(err == nil && id2 == id)
		kmc = k2
		a = kmc.managedKeystores[id]
		vsAssume(a != nil)
	case 4, 5: // restart
		k2, err := NewKeystoreManagerForPoC(vsDBT{}, pub, vsParams)
		vsAssume(err == nil)
		kmc = k2
		a = kmc.managedKeystores[id]
	}
	if kmc.IsLocked() {
		vsAssert(kmc.Unlock(cur) == nil, "current-passphrase-unlocks")
		vsAssume(!kmc.IsLocked() && a.unlocked)
	}
	pE, _ := pocec.ParsePubKey(pkE.SerializeCompressed(), pocec.S256())
	pI := pE
	if withInternal {
		pI, _ = pocec.ParsePubKey(pkI.SerializeCompressed(), pocec.S256())
	}
	sE, err := kmc.SignHash(pE, h)
	vsAssert(err == nil && sE != nil, "plot-key-signs-when-unlocked")
	vsAssume(err == nil && sE != nil)
	vsAssert(vsSigOK(sE, h, pE), "signature-verifies-under-the-requested-plot-key")
	if withInternal {
		sI, err := kmc.SignHash(pI, h)
		vsAssert(err == nil && sI != nil, "internal-key-signs-when-unlocked")
		vsAssume(err == nil && sI != nil)
		vsAssert(vsSigOK(sI, h, pI), "signature-verifies-under-the-requested-internal-key")
	}
	// SignMessage signs the hash of the message
	msg := vsNondetBytes(8, "message")
	sM, err := kmc.SignMessage(pE, msg)
	vsAssert(err == nil && sM != nil, "message-signs-when-unlocked")
	vsAssume(err == nil && sM != nil)
	mh := wire.HashH(msg)
	vsAssert(vsSigOK(sM, mh[:], pE), "message-signature-verifies-for-the-message-hash")
	ok, err := kmc.VerifySig(sE, h, pE)
	vsAssert(err == nil && ok, "wallet-verifies-its-own-signature")
	// a key the wallet never issued
	fx := vsNondetBytes(32, "foreign")
	fk, _ := pocec.ParsePubKey(append([]byte{2}, fx...), pocec.S256())
	vsAssume(string(fk.SerializeCompressed()) != string(pE.SerializeCompressed()) && string(fk.SerializeCompressed()) != string(pI.SerializeCompressed()))
	_, err = kmc.SignHash(fk, h)
	vsAssert(err != nil, "foreign-key-is-refused")
	vsReach("sign-end")
}
