//go:build verif

package capacity

import (
	"bytes"

	"massnet.org/mass/poc/engine"
)

// VsH_KeeperSign: the keeper signs a block's PoC hash through the wallet for the public key of the addressed space.
// Headers are verified against HashH(pocHash) (wire.BlockHeader.VerifySig), which is what the wallet's SignMessage signs
// when handed the 32 hash bytes: the keeper must call SignMessage exactly once, with the key of that space and those bytes.
func VsH_KeeperSign() {
	sk, wss, _ := vsKeeper(2, []engine.WorkSpaceState{engine.Mining, engine.Ready}, []bool{true, true})
	w := sk.wallet.(*vsWallet)
	var h [32]byte
	copy(h[:], vsNondetBytes(32, "pochash"))
	which := vsFork(3, "space")
	if which == 2 {
		_, err := sk.SignHash("zz-24", h)
		vsAssert(err != nil && w.signMsgCalls+w.signHashCalls == 0, "unknown-space-is-refused-without-signing")
		vsReach("keeper-sign-unknown")
		return
	}
	sig, err := sk.SignHash(vsSids[which], h)
	vsAssert(err == nil && sig != nil, "keeper-sign-succeeds")
	vsAssert(w.signMsgCalls == 1 && w.signHashCalls == 0, "keeper-signs-through-sign-message-once")
	vsAssert(w.signKey == wss[which].id.pubKey, "keeper-signs-with-the-key-of-the-addressed-space")
	vsAssert(bytes.Equal(w.signArg, h[:]), "keeper-signs-exactly-the-poc-hash-bytes")
	vsReach("keeper-sign-end")
}
