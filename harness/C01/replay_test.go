package keystore

// Native replay of C01 counterexamples of the rejection harness: a real wallet (leveldb, scrypt, secretbox, secp256k1),
// one plot key, real ExportKeystore; the JSON file is corrupted in exactly the field of the counterexample (one byte of
// a hex blob XORed with the model's value, or the named scalar field changed), the keystore is deleted and the file is
// imported again. Confirmed iff the real ImportKeystore accepts the corrupted file.

import (
	"encoding/hex"
	"encoding/json"
	"fmt"
	"os"
	"regexp"
	"strconv"
	"strings"
	"testing"

	"massnet.org/mass/config"
	walletdb "massnet.org/mass/poc/wallet/db"
	_ "massnet.org/mass/poc/wallet/db/ldb"
	"massnet.org/mass/poc/wallet/keystore/snacl"
)

func TestVsReplayC01(t *testing.T) {
	raw, err := os.ReadFile(os.Getenv("VS_MODEL"))
	if err != nil {
		t.Fatal(err)
	}
	var m struct {
		Harness, Obligation, Case string
		Model                     map[string]string
	}
	json.Unmarshal(raw, &m)
	if m.Harness != "import_rejects" {
		fmt.Println("VSREPLAY-NO-SCENARIO: no native scenario for harness", m.Harness)
		return
	}
	why := -1
	if s := regexp.MustCompile(`why=(\d+)`).FindStringSubmatch(m.Case); s != nil {
		why, _ = strconv.Atoi(s[1])
	}
	flip := byte(1)
	if v, ok := m.Model["flip"]; ok {
		x, _ := strconv.ParseUint(strings.TrimPrefix(v, "0x"), 16, 8)
		if x != 0 {
			flip = byte(x)
		}
	}
	store, err := walletdb.CreateDB("leveldb", t.TempDir()+"/w")
	if err != nil {
		t.Fatal(err)
	}
	defer store.Close()
	pub, priv := []byte("publicpass01"), []byte("privatepass1")
	opt := &ScryptOptions{N: 16, R: 8, P: 1}
	saved := secretKeyGen
	secretKeyGen = func(p *[]byte, c *ScryptOptions) (*snacl.SecretKey, error) { return saved(p, opt) } // import uses the default (slow) scrypt cost otherwise
	defer func() { secretKeyGen = saved }()
	kmc, err := NewKeystoreManagerForPoC(store, pub, config.ChainParams)
	if err != nil {
		t.Fatal(err)
	}
	id, err := kmc.NewKeystore(priv, nil, "first", config.ChainParams, opt)
	if err != nil {
		t.Fatal(err)
	}
	if _, _, err := kmc.GenerateNewPublicKey(); err != nil {
		t.Fatal(err)
	}
	file, err := kmc.ExportKeystore(id, priv)
	if err != nil {
		t.Fatal(err)
	}
	var ks Keystore
	if err := json.Unmarshal(file, &ks); err != nil {
		t.Fatal(err)
	}
	mut := func(h string) string {
		b, _ := hex.DecodeString(h)
		b[0] ^= flip
		return hex.EncodeToString(b)
	}
	pass := priv
	switch why {
	case 0:
	case 1:
		pass = []byte("otherpass123")
	case 2:
		ks.Crypto.MasterHDPrivKeyEnc = mut(ks.Crypto.MasterHDPrivKeyEnc)
	case 3:
		ks.Crypto.PrivParams = mut(ks.Crypto.PrivParams)
	case 4:
		ks.Crypto.CryptoKeyPrivEnc = mut(ks.Crypto.CryptoKeyPrivEnc)
	case 5:
		ks.Crypto.PubParams = mut(ks.Crypto.PubParams)
	case 6:
		ks.Crypto.CryptoKeyPubEnc = mut(ks.Crypto.CryptoKeyPubEnc)
	case 7:
		ks.Crypto.Cipher = "other"
	case 8:
		ks.Crypto.KDF = "other"
	case 9:
		ks.Remark = "tampered"
	case 10:
		ks.HDpath.ExternalChildNum++
	case 11:
		ks.HDpath.InternalChildNum++
	default:
		fmt.Println("VSREPLAY-NO-SCENARIO: unknown case", m.Case)
		return
	}
	if why >= 1 {
		if ok, err := kmc.DeleteKeystore(id, priv); !ok || err != nil {
			t.Fatal("delete:", err)
		}
	}
	tampered, _ := json.Marshal(&ks)
	id2, remark2, err := kmc.ImportKeystore(tampered, pass, nil)
	if err == nil {
		fmt.Printf("VSREPLAY-CONFIRMED: the real ImportKeystore accepted the file (%s): id=%s remark=%q, %d keystore(s) now\n", m.Obligation, id2, remark2, len(kmc.managedKeystores))
		return
	}
	fmt.Println("VSREPLAY-NOT-REPRODUCED: rejected natively:", err)
}
