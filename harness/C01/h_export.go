//go:build verif

package keystore

import (
	"bytes"

	"github.com/massnetorg/mass-core/pocec"
	"massnet.org/mass/poc/wallet/db"
)

// hex as a bijective stand-in (like base58 in the kit): the blobs in the keystore file are the bytes themselves
func vsHexEncode(b []byte) string          { return string(b) }
func vsHexDecode(s string) ([]byte, error) { return []byte(s), nil }

type vsIssuedKey struct {
	addr   string
	branch uint32
	index  uint32
	pub    []byte
}

// vsSnapshot: every address the keystore holds, with branch, index and public key (order of iteration, which is the
// insertion order in the engine's map model)
func vsSnapshot(a *AddrManager) []vsIssuedKey {
	var out []vsIssuedKey
	for addr, m := range a.addrs {
		out = append(out, vsIssuedKey{addr, m.derivationPath.Branch, m.derivationPath.Index, m.pubKey.SerializeCompressed()})
	}
	return out
}

func vsSameKeys(a *AddrManager, want []vsIssuedKey) bool {
	if len(a.addrs) != len(want) {
		return false
	}
	ok := true
	for _, w := range want {
		m, found := a.addrs[w.addr]
		if !found || m.derivationPath.Branch != w.branch || m.derivationPath.Index != w.index || !bytes.Equal(m.pubKey.SerializeCompressed(), w.pub) {
			ok = false
		}
	}
	return ok
}

// VsH_ExportImport: a keystore with nE external and nI internal keys (unequal counts included) is exported and imported
// again - into the same wallet after deletion, into an empty other wallet, or into another wallet that already holds a
// keystore under a different private passphrase (import re-encrypts under that one).
func VsH_ExportImport() {
	kmc, a, pub, priv, id := vsNewWallet()
	shape := vsFork(vsBound("shapes"), "keys") // (external, internal): (1,0) (0,1) (2,1) (1,2)
	nE := []int{1, 0, 2, 1}[shape]
	nI := []int{0, 1, 1, 2}[shape]
	for i := 0; i < nE; i++ {
		_, _, err := kmc.GenerateNewPublicKey()
		vsAssume(err == nil)
	}
	if nI > 0 {
		_, err := kmc.NextAddresses(id, true, uint32(nI))
		vsAssume(err == nil)
	}
	want := vsSnapshot(a)
	remark := a.remark
	file, err := kmc.ExportKeystore(id, priv)
	vsAssert(err == nil, "export-with-current-passphrase-succeeds")
	vsAssume(err == nil)
	vsAssert(vsExported.HDpath.ExternalChildNum == uint32(nE) && vsExported.HDpath.InternalChildNum == uint32(nI), "file-carries-the-external-and-internal-counts")
	target := vsFork(3, "target")
	unlockPass := priv
	var k2 *KeystoreManagerForPoC
	switch target {
	case 0: // same wallet after deleting the keystore
		ok, err := kmc.DeleteKeystore(id, priv)
		vsAssume(ok && err == nil)
		k2 = kmc
	case 1: // another, empty wallet with its own public passphrase
		vsStore = &vsStoreT{root: &vsBkt{name: ""}}
		pub2 := vsNondetBytes(6, "pubpass2")
		vsAssume(string(pub2) != string(priv))
		k2, err = NewKeystoreManagerForPoC(vsDBT{}, pub2, vsParams)
		vsAssume(err == nil)
	case 2: // another wallet that already holds a keystore under passphrase p2
		vsStore = &vsStoreT{root: &vsBkt{name: ""}}
		p2 := vsNondetBytes(6, "privpass2")
		vsAssume(string(p2) != string(priv) && string(p2) != string(pub))
		k2, err = NewKeystoreManagerForPoC(vsDBT{}, pub, vsParams)
		vsAssume(err == nil)
		seed2 := vsNondetBytes(32, "seed2")
		_, err = k2.NewKeystore(p2, seed2, "resident", vsParams, &ScryptOptions{N: 16, R: 8, P: 1})
		vsAssume(err == nil)
		unlockPass = p2
	}
	var id2, remark2 string
	if target == 2 {
		id2, remark2, err = k2.ImportKeystore(file, priv, unlockPass)
	} else {
		id2, remark2, err = k2.ImportKeystore(file, priv, nil)
	}
	vsAssert(err == nil, "import-with-the-export-passphrase-succeeds")
	vsAssume(err == nil)
	vsAssert(id2 == id, "imported-keystore-has-the-same-identifier")
	vsAssert(remark2 == remark, "imported-keystore-has-the-same-remark")
	a2 := k2.managedKeystores[id2]
	vsAssume(a2 != nil)
	vsAssert(vsSameKeys(a2, want), "same-addresses-and-public-keys-at-the-same-indices")
	in2, ex2 := vsStoredCounts(a2)
	vsAssert(ex2 == uint32(nE) && in2 == uint32(nI), "imported-keystore-persists-the-next-indices-of-the-file")
	vsAssert(a2.branchInfo.nextExternalIndex == uint32(nE) && a2.branchInfo.nextInternalIndex == uint32(nI), "imported-keystore-continues-at-the-next-indices-of-the-file")
	vsAssert(k2.Unlock(unlockPass) == nil, "wallet-passphrase-unlocks-after-import")
	vsAssume(!k2.IsLocked() && a2.unlocked)
	h := vsNondetBytes(32, "digest")
	for _, w := range want {
		pk, _ := pocec.ParsePubKey(w.pub, pocec.S256())
		sig, err := k2.SignHash(pk, h)
		vsAssert(err == nil && sig != nil && sig.Verify(h, pk), "every-imported-key-signs-after-unlock")
	}
	// the next plot key continues after the imported ones
	// (asked of the imported keystore by name: with several keystores GenerateNewPublicKey may pick any of them)
	next, err := k2.NextAddresses(id2, false, 1)
	vsAssert(err == nil && len(next) == 1 && next[0].derivationPath.Index == uint32(nE), "next-issued-ordinal-continues-after-the-imported-keys")
	vsReach("import-end")
}

// vsStoredCounts: the persisted (internal, external) next-child counters of a keystore, read through the real db API.
func vsStoredCounts(a *AddrManager) (uint32, uint32) {
	var in, ex uint32
	db.View(vsDBT{}, func(tx db.ReadTransaction) error {
		in, ex, _ = fetchChildNum(tx.FetchBucket(a.storage))
		return nil
	})
	return in, ex
}

// VsH_ImportRejects: a wrong passphrase, a keystore that is already present, or a file with one corrupted field is
// rejected and leaves store and running instance unchanged.
func VsH_ImportRejects() {
	kmc, a, _, priv, id := vsNewWallet()
	_, _, err := kmc.GenerateNewPublicKey()
	vsAssume(err == nil)
	file, err := kmc.ExportKeystore(id, priv)
	vsAssume(err == nil)
	why := vsFork(12, "why")
	pass := priv
	switch why {
	case 0: // already present
	case 1: // wrong passphrase (into the same wallet after deletion, so that presence is not the reason)
		pass = vsNondetBytes(6, "other")
		vsAssume(string(pass) != string(priv))
	}
	if why >= 1 {
		ok, err := kmc.DeleteKeystore(id, priv)
		vsAssume(ok && err == nil)
	}
	flip := vsNondetU8("flip")
	vsAssume(flip != 0)
	pos := 0
	mut := func(s string) string { // corrupt one byte of a blob
		b := []byte(s)
		vsAssume(len(b) > pos)
		b[pos] ^= flip
		return string(b)
	}
	switch why {
	case 2:
		vsExported.Crypto.MasterHDPrivKeyEnc = mut(vsExported.Crypto.MasterHDPrivKeyEnc)
	case 3:
		vsExported.Crypto.PrivParams = mut(vsExported.Crypto.PrivParams)
	case 4:
		vsExported.Crypto.CryptoKeyPrivEnc = mut(vsExported.Crypto.CryptoKeyPrivEnc)
	case 5:
		vsExported.Crypto.PubParams = mut(vsExported.Crypto.PubParams)
	case 6:
		vsExported.Crypto.CryptoKeyPubEnc = mut(vsExported.Crypto.CryptoKeyPubEnc)
	case 7:
		vsExported.Crypto.Cipher = "other"
	case 8:
		vsExported.Crypto.KDF = "other"
	case 9:
		vsExported.Remark = "tampered"
	case 10:
		vsExported.HDpath.ExternalChildNum += 1
	case 11:
		vsExported.HDpath.InternalChildNum += 1
	}
	pre := vsStore.root.clone()
	n0 := len(kmc.managedKeystores)
	_, _, err = kmc.ImportKeystore(file, pass, nil)
	switch why {
	case 0:
		vsAssert(err != nil, "keystore-already-present-is-rejected")
	case 1:
		vsAssert(err != nil, "wrong-passphrase-is-rejected")
	case 2:
		vsAssert(err != nil, "tampered-master-key-blob-is-rejected")
	case 3:
		vsAssert(err != nil, "tampered-private-kdf-parameters-are-rejected")
	case 4:
		vsAssert(err != nil, "tampered-private-crypto-key-blob-is-rejected")
	case 5:
		vsAssert(err != nil, "tampered-public-kdf-parameters-are-rejected")
	case 6:
		vsAssert(err != nil, "tampered-public-crypto-key-blob-is-rejected")
	case 7:
		vsAssert(err != nil, "tampered-cipher-name-is-rejected")
	case 8:
		vsAssert(err != nil, "tampered-kdf-name-is-rejected")
	case 9:
		vsAssert(err != nil, "tampered-remark-is-rejected")
	case 10:
		vsAssert(err != nil, "tampered-external-count-is-rejected")
	case 11:
		vsAssert(err != nil, "tampered-internal-count-is-rejected")
	}
	if err != nil {
		vsAssert(vsBktEqual(vsStore.root, pre), "rejected-import-leaves-the-store-unchanged")
		vsAssert(len(kmc.managedKeystores) == n0, "rejected-import-leaves-the-keystore-set-unchanged")
		vsReach("rejected")
	}
	_ = a
}
