//go:build verif

package keystore

// vsSameKeystore: the reopened image of a keystore equals the running one, field by field: name, remark, use, address
// set with branch/index/public key, next indices, the public account/branch keys, and it is locked.
func vsSameKeystore(run, re *AddrManager) bool {
	if re == nil || run == nil {
		return false
	}
	ok := run.keystoreName == re.keystoreName && run.remark == re.remark && run.use == re.use
	ok = ok && run.branchInfo.nextExternalIndex == re.branchInfo.nextExternalIndex && run.branchInfo.nextInternalIndex == re.branchInfo.nextInternalIndex
	ok = ok && run.acctInfo.acctKeyPub.String() == re.acctInfo.acctKeyPub.String()
	ok = ok && run.branchInfo.externalBranchPub.String() == re.branchInfo.externalBranchPub.String()
	ok = ok && run.branchInfo.internalBranchPub.String() == re.branchInfo.internalBranchPub.String()
	ok = ok && vsSameKeys(re, vsSnapshot(run))
	return ok && !re.unlocked
}

// VsH_Restart: after a history prefix chosen by vsFork, the store is reopened with the current public passphrase and the
// reopened manager is compared with the running one; the current private passphrase unlocks it, a superseded one does
// not; a wrong public passphrase is refused and alters nothing.
func VsH_Restart() {
	kmc, a, pub, priv, id := vsNewWallet()
	curPub, curPriv := pub, priv
	var oldPriv []byte
	hist := vsFork(vsBound("histories"), "history")
	switch hist {
	case 0: // creation only
	case 1: // keys on both branches (issued while locked)
		_, _, err := kmc.GenerateNewPublicKey()
		vsAssume(err == nil)
		_, err = kmc.NextAddresses(id, true, 1)
		vsAssume(err == nil)
	case 2: // remark change after a key was issued
		_, _, err := kmc.GenerateNewPublicKey()
		vsAssume(err == nil)
		vsAssume(kmc.ChangeRemark(id, "renamed") == nil)
	case 3: // private passphrase change
		np := vsNondetBytes(6, "newpass")
		vsAssume(string(np) != string(priv) && string(np) != string(pub))
		vsAssume(kmc.ChangePrivPassphrase(priv, np, &ScryptOptions{N: 16, R: 8, P: 1}) == nil)
		oldPriv, curPriv = priv, np
	case 4: // public passphrase change, then a key
		np := vsNondetBytes(6+2*vsFork(2, "newpublen"), "newpub") // same length as the old one, or longer
		vsAssume(string(np) != string(priv) && string(np) != string(pub))
		vsAssume(kmc.ChangePubPassphrase(pub, np, &ScryptOptions{N: 16, R: 8, P: 1}) == nil)
		curPub = np
		_, _, err := kmc.GenerateNewPublicKey()
		vsAssume(err == nil)
	case 7: // public passphrase change (to another length), then a second keystore is created
		np := vsNondetBytes(6+2*vsFork(2, "newpublen"), "newpub")
		vsAssume(string(np) != string(priv) && string(np) != string(pub))
		vsAssume(kmc.ChangePubPassphrase(pub, np, &ScryptOptions{N: 16, R: 8, P: 1}) == nil)
		curPub = np
		_, err := kmc.NewKeystore(priv, vsNondetBytes(32, "seed2"), "second", vsParams, &ScryptOptions{N: 16, R: 8, P: 1})
		vsAssume(err == nil)
	case 5: // keys issued while unlocked, then lock
		vsAssume(kmc.Unlock(priv) == nil)
		_, _, err := kmc.GenerateNewPublicKey()
		vsAssume(err == nil)
		kmc.Lock()
	case 6: // deletion: nothing of the keystore comes back
		_, _, err := kmc.GenerateNewPublicKey()
		vsAssume(err == nil)
		ok, err := kmc.DeleteKeystore(id, priv)
		vsAssume(ok && err == nil)
	}
	// a wrong public passphrase is refused and alters nothing
	wrong := vsNondetBytes(6, "wrongpub")
	vsAssume(string(wrong) != string(curPub))
	pre := vsStore.root.clone()
	_, err := NewKeystoreManagerForPoC(vsDBT{}, wrong, vsParams)
	if hist != 6 {
		vsAssert(err != nil, "wrong-public-passphrase-is-refused")
	}
	vsAssert(vsBktEqual(vsStore.root, pre), "refused-or-repeated-open-does-not-alter-the-store")
	if hist == 4 || hist == 7 {
		_, err := NewKeystoreManagerForPoC(vsDBT{}, pub, vsParams)
		vsAssert(err != nil, "superseded-public-passphrase-is-refused")
	}
	k2, err := NewKeystoreManagerForPoC(vsDBT{}, curPub, vsParams)
	vsAssert(err == nil && k2 != nil, "reopen-with-the-current-public-passphrase-succeeds")
	vsAssume(err == nil && k2 != nil)
	if hist == 6 {
		vsAssert(len(k2.managedKeystores) == 0, "deleted-keystore-does-not-come-back")
		vsReach("restart-after-delete")
		return
	}
	vsAssert(len(k2.managedKeystores) == len(kmc.managedKeystores), "same-set-of-keystores")
	a2 := k2.managedKeystores[id]
	vsAssert(a2 != nil, "keystore-present-under-its-identifier")
	vsAssume(a2 != nil)
	vsAssert(vsSameKeystore(a, a2), "reopened-keystore-equals-the-running-one")
	for name, run := range kmc.managedKeystores {
		vsAssert(vsSameKeystore(run, k2.managedKeystores[name]), "every-reopened-keystore-equals-the-running-one")
	}
	vsAssert(k2.IsLocked(), "reopened-wallet-is-locked")
	if oldPriv != nil {
		vsAssert(k2.Unlock(oldPriv) != nil, "superseded-private-passphrase-does-not-unlock-after-restart")
		vsAssume(!a2.unlocked)
	}
	vsAssert(k2.Unlock(curPriv) == nil, "current-private-passphrase-unlocks-after-restart")
	// the next key is the same in both instances (on the reopened one; the running one is not advanced)
	vsReach("restart-end")
}
