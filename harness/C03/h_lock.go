//go:build verif

package keystore

import (
	"bytes"
	"errors"
)

func vsRandRead(b []byte) (int, error) { copy(b, vsNondetBytes(len(b), "rand")); return len(b), nil }

var vsErrBox = errors.New("x")

// vsNoSecrets: the locked-state invariant, by value: no private key object, and no field holds the key-decrypting key
// derived from the current passphrase c, the private crypto key, or the salted hash of c.
func vsNoSecrets(a *AddrManager, c []byte) bool {
	ok := a.acctInfo.acctKeyPriv == nil && a.branchInfo.externalBranchPriv == nil && a.branchInfo.internalBranchPriv == nil
	for _, m := range a.addrs {
		if m.privKey != nil {
			ok = false
		}
	}
	kdk, _ := vsScryptKey(c, a.masterKeyPriv.Parameters.Salt[:], 16, 8, 1, 32)
	vsAssume(!bytes.Equal(kdk, make([]byte, 32))) // idealisation: a derived key is not the all-zero string
	if bytes.Equal(a.masterKeyPriv.Key[:], kdk) {
		ok = false
	}
	for _, b := range a.cryptoKeyPriv.Bytes() {
		if b != 0 {
			ok = false
		}
	}
	for _, b := range a.hashedPrivPassphrase {
		if b != 0 {
			ok = false // the salted passphrase hash is only ever set after a successful check: it must be wiped
		}
	}
	return ok
}

func vsNewWallet() (*KeystoreManagerForPoC, *AddrManager, []byte, []byte, string) {
	vsStore = &vsStoreT{root: &vsBkt{name: ""}}
	pub := vsNondetBytes(6, "pubpass")
	priv := vsNondetBytes(6, "privpass")
	vsAssume(string(pub) != string(priv))
	seed := vsNondetBytes(32, "seed")
	kmc, err := NewKeystoreManagerForPoC(vsDBT{}, pub, vsParams)
	vsAssume(err == nil)
	id, err := kmc.NewKeystore(priv, seed, "first", vsParams, &ScryptOptions{N: 16, R: 8, P: 1})
	vsAssume(err == nil)
	return kmc, kmc.managedKeystores[id], pub, priv, id
}

// VsH_LockCycle: from a freshly created (locked) wallet, one scenario chosen by vsFork; p is an arbitrary other passphrase.
func VsH_LockCycle() {
	kmc, a, pub, priv, id := vsNewWallet()
	p := vsNondetBytes(6, "other")
	vsAssume(string(p) != string(priv))
	vsAssert(kmc.IsLocked() && !a.unlocked, "new-wallet-is-locked")
	vsAssert(vsNoSecrets(a, priv), "locked-new-wallet-holds-no-secret")
	switch vsFork(11, "scenario") {
	case 0: // wrong passphrase never unlocks
		vsAssert(kmc.Unlock(p) != nil, "wrong-passphrase-does-not-unlock")
		vsAssert(kmc.IsLocked() && !a.unlocked, "failed-unlock-stays-locked")
		vsAssert(vsNoSecrets(a, priv), "failed-unlock-leaves-no-secret")
		_, err := kmc.SignHash(nil, make([]byte, 32))
		vsAssert(err != nil, "locked-wallet-does-not-sign")
	case 1: // right passphrase unlocks, Lock wipes
		vsAssert(kmc.Unlock(priv) == nil, "current-passphrase-unlocks")
		vsAssert(!kmc.IsLocked() && a.unlocked, "unlocked-after-unlock")
		kmc.Lock()
		vsAssert(kmc.IsLocked() && !a.unlocked, "locked-after-lock")
		vsAssert(vsNoSecrets(a, priv), "lock-wipes-every-secret")
	case 2: // export / delete need the current passphrase
		_, err := kmc.ExportKeystore(id, p)
		vsAssert(err != nil, "export-with-wrong-passphrase-refused")
		ok, err2 := kmc.DeleteKeystore(id, p)
		vsAssert(!ok && err2 != nil, "delete-with-wrong-passphrase-refused")
		_, still := kmc.managedKeystores[id]
		vsAssert(still, "refused-delete-keeps-keystore")
		vsAssert(vsNoSecrets(a, priv), "refused-export-delete-leave-no-secret")
	case 3: // passphrase change while locked
		np := vsNondetBytes(6, "newpass")
		vsAssume(string(np) != string(priv) && string(np) != string(pub))
		err := kmc.ChangePrivPassphrase(priv, np, &ScryptOptions{N: 16, R: 8, P: 1})
		vsAssert(err == nil, "change-with-current-passphrase-succeeds")
		vsAssert(kmc.IsLocked() && !a.unlocked, "change-while-locked-stays-locked")
		vsAssume(err == nil && !a.unlocked)
		vsAssert(vsNoSecrets(a, np), "change-while-locked-leaves-no-secret")
		vsAssert(kmc.Unlock(priv) != nil, "superseded-passphrase-no-longer-unlocks")
		vsAssert(!a.unlocked, "superseded-passphrase-leaves-wallet-locked")
		vsAssume(!a.unlocked)
		vsAssert(kmc.Unlock(np) == nil, "new-passphrase-unlocks")
	case 4: // passphrase change with a wrong old passphrase
		np := vsNondetBytes(6, "newpass")
		vsAssume(string(np) != string(p) && string(np) != string(pub))
		pre := vsStore.root.clone()
		err := kmc.ChangePrivPassphrase(p, np, &ScryptOptions{N: 16, R: 8, P: 1})
		vsAssert(err != nil, "change-with-wrong-passphrase-refused")
		vsAssume(err != nil)
		vsAssert(vsBktEqual(vsStore.root, pre), "refused-change-leaves-store-unchanged")
		vsAssert(!a.unlocked, "refused-change-leaves-wallet-locked")
		vsAssume(!a.unlocked)
		vsAssert(vsNoSecrets(a, priv), "refused-change-leaves-no-secret")
		e2 := kmc.Unlock(priv)
		vsAssert(e2 == nil, "refused-change-keeps-current-passphrase")
	case 7: // relock and unlock again
		vsAssume(kmc.Unlock(priv) == nil)
		kmc.Lock()
		vsAssert(kmc.Unlock(priv) == nil, "unlock-lock-unlock-works")
	case 6: // a failed attempt does not disable the current passphrase; export with the current one leaves nothing behind
		vsAssume(kmc.Unlock(p) != nil && !a.unlocked) // (proved in scenario 0)
		vsAssert(kmc.Unlock(priv) == nil, "current-passphrase-unlocks-after-a-failed-attempt")
	case 8:
		_, err := kmc.ExportKeystore(id, priv)
		vsAssert(err == nil, "export-with-current-passphrase-succeeds")
		vsAssume(err == nil)
		vsAssert(!a.unlocked && kmc.IsLocked(), "export-does-not-unlock")
		vsAssert(vsNoSecrets(a, priv), "export-with-current-passphrase-while-locked-leaves-no-secret")
	case 9: // two keystores: one passphrase governs both, before and after a change made while locked
		opts := &ScryptOptions{N: 16, R: 8, P: 1}
		_, err := kmc.NewKeystore(p, vsNondetBytes(32, "seed3"), "other-pass", vsParams, opts)
		vsAssert(err != nil, "new-keystore-under-another-passphrase-is-refused")
		vsAssume(err != nil)
		id2, err := kmc.NewKeystore(priv, vsNondetBytes(32, "seed2"), "second", vsParams, opts)
		vsAssume(err == nil)
		a2 := kmc.managedKeystores[id2]
		vsAssume(a2 != nil && a2 != a)
		np := vsNondetBytes(6, "newpass")
		vsAssume(string(np) != string(priv) && string(np) != string(pub))
		vsAssert(kmc.ChangePrivPassphrase(priv, np, opts) == nil, "change-with-two-keystores-succeeds")
		vsAssume(!a.unlocked && !a2.unlocked)
		vsAssert(kmc.Unlock(priv) != nil, "superseded-passphrase-unlocks-no-keystore")
		vsAssert(!a.unlocked && !a2.unlocked, "failed-unlock-leaves-every-keystore-locked")
		vsAssume(!a.unlocked && !a2.unlocked)
		vsAssert(kmc.Unlock(np) == nil, "new-passphrase-unlocks-every-keystore")
		vsAssert(a.unlocked && a2.unlocked && !kmc.IsLocked(), "unlock-is-all-or-nothing")
		kmc.Lock()
		vsAssert(vsNoSecrets(a, np) && vsNoSecrets(a2, np), "lock-wipes-every-keystore")
	case 10: // a keystore file exported elsewhere under another passphrase q cannot bring q into this wallet
		opts := &ScryptOptions{N: 16, R: 8, P: 1}
		mine := vsStore
		vsStore = &vsStoreT{root: &vsBkt{name: ""}}
		kb, err := NewKeystoreManagerForPoC(vsDBT{}, pub, vsParams)
		vsAssume(err == nil)
		idb, err := kb.NewKeystore(p, vsNondetBytes(32, "seed2"), "foreign", vsParams, opts)
		vsAssume(err == nil)
		file, err := kb.ExportKeystore(idb, p)
		vsAssume(err == nil)
		vsStore = mine
		pre := vsStore.root.clone()
		_, _, err = kmc.ImportKeystore(file, p, nil)
		vsAssert(err != nil, "import-keeping-a-different-passphrase-is-refused")
		if err != nil {
			vsAssert(vsBktEqual(vsStore.root, pre) && len(kmc.managedKeystores) == 1, "refused-import-changes-nothing")
		}
		vsAssume(err != nil)
		id2, _, err := kmc.ImportKeystore(file, p, priv)
		vsAssert(err == nil, "import-re-encrypting-under-the-wallet-passphrase-succeeds")
		vsAssume(err == nil)
		a2 := kmc.managedKeystores[id2]
		vsAssume(a2 != nil && a2 != a)
		vsAssert(kmc.Unlock(p) != nil, "file-passphrase-does-not-unlock-the-wallet")
		vsAssume(!a.unlocked && !a2.unlocked)
		vsAssert(kmc.Unlock(priv) == nil && a.unlocked && a2.unlocked, "wallet-passphrase-unlocks-the-imported-keystore-too")
	case 5: // passphrase change while unlocked, then lock
		np := vsNondetBytes(6, "newpass")
		vsAssume(string(np) != string(priv) && string(np) != string(pub))
		vsAssume(kmc.Unlock(priv) == nil)
		vsAssert(kmc.ChangePrivPassphrase(priv, np, &ScryptOptions{N: 16, R: 8, P: 1}) == nil, "change-while-unlocked-succeeds")
		kmc.Lock()
		vsAssert(vsNoSecrets(a, np), "lock-after-change-wipes-every-secret")
		vsAssert(kmc.Unlock(priv) != nil, "superseded-passphrase-no-longer-unlocks-after-relock")
	}
	vsReach("cycle-end")
}
