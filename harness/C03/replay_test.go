package keystore

// Native replay of C03 counterexamples: the real wallet over a real leveldb store with real scrypt/secretbox/secp256k1.
// Passphrases of the model (arbitrary 6 bytes; the harness stubs the character-class check) are hex-encoded so that they
// are well-formed for the real ValidatePassphrase while staying pairwise distinct.

import (
	"bytes"
	"encoding/hex"
	"encoding/json"
	"fmt"
	"os"
	"strconv"
	"strings"
	"testing"

	"massnet.org/mass/config"
	walletdb "massnet.org/mass/poc/wallet/db"
	_ "massnet.org/mass/poc/wallet/db/ldb"
	"massnet.org/mass/poc/wallet/keystore/snacl"
)

type vsModel3 struct {
	Harness    string            `json:"harness"`
	Obligation string            `json:"obligation"`
	Case       string            `json:"case"`
	Model      map[string]string `json:"model"`
}

func (m *vsModel3) bytes(name string, n int) []byte {
	out := make([]byte, n)
	for i := range out {
		x, _ := strconv.ParseUint(strings.TrimPrefix(m.Model[fmt.Sprintf("%s[%d]", name, i)], "0x"), 16, 64)
		out[i] = byte(x)
	}
	return out
}

func (m *vsModel3) pass(name string) []byte { return []byte(hex.EncodeToString(m.bytes(name, 6))) }

// vsNativeNoSecrets: the locked-state invariant of the harness, with the real KDF.
func vsNativeNoSecrets(a *AddrManager, cur []byte) (bool, string) {
	if a.acctInfo.acctKeyPriv != nil || a.branchInfo.externalBranchPriv != nil || a.branchInfo.internalBranchPriv != nil {
		return false, "extended private key object present"
	}
	for _, m := range a.addrs {
		if m.privKey != nil {
			return false, "address private key present"
		}
	}
	var sk snacl.SecretKey
	if err := sk.Unmarshal(a.masterKeyPriv.Marshal()); err != nil {
		return true, ""
	}
	pw := append([]byte{}, cur...)
	if err := sk.DeriveKey(&pw); err == nil && bytes.Equal(sk.Key[:], a.masterKeyPriv.Key[:]) {
		return false, "masterKeyPriv.Key holds the key-decrypting key derived from the current passphrase"
	}
	for _, b := range a.cryptoKeyPriv.Bytes() {
		if b != 0 {
			return false, "cryptoKeyPriv not wiped"
		}
	}
	for _, b := range a.hashedPrivPassphrase {
		if b != 0 {
			return false, "hashedPrivPassphrase not wiped"
		}
	}
	return true, ""
}

func TestVsReplayC03(t *testing.T) {
	raw, err := os.ReadFile(os.Getenv("VS_MODEL"))
	if err != nil {
		t.Fatal(err)
	}
	var m vsModel3
	json.Unmarshal(raw, &m)
	store, err := walletdb.CreateDB("leveldb", t.TempDir()+"/w")
	if err != nil {
		t.Fatal(err)
	}
	defer store.Close()
	pub, priv, other, np := m.pass("pubpass"), m.pass("privpass"), m.pass("other"), m.pass("newpass")
	opt := &ScryptOptions{N: 16, R: 8, P: 1}
	kmc, err := NewKeystoreManagerForPoC(store, pub, config.ChainParams)
	if err != nil {
		t.Fatal(err)
	}
	id, err := kmc.NewKeystore(priv, m.bytes("seed", 32), "first", config.ChainParams, opt)
	if err != nil {
		fmt.Println("VSREPLAY-NO-SCENARIO: keystore creation failed natively:", err)
		return
	}
	a := kmc.managedKeystores[id]
	verdict := func(held bool, why string) {
		if held {
			fmt.Println("VSREPLAY-NOT-REPRODUCED:", m.Obligation, "holds natively")
		} else {
			fmt.Println("VSREPLAY-CONFIRMED:", m.Obligation, "fails natively:", why)
		}
	}
	switch m.Obligation {
	case "locked-new-wallet-holds-no-secret":
		verdict(vsNativeNoSecrets(a, priv))
	case "wrong-passphrase-does-not-unlock", "failed-unlock-stays-locked", "failed-unlock-leaves-no-secret", "locked-wallet-does-not-sign":
		e := kmc.Unlock(other)
		switch m.Obligation {
		case "wrong-passphrase-does-not-unlock":
			verdict(e != nil, "Unlock accepted a wrong passphrase")
		case "failed-unlock-stays-locked":
			verdict(kmc.IsLocked() && !a.unlocked, "unlocked flag set")
		case "failed-unlock-leaves-no-secret":
			verdict(vsNativeNoSecrets(a, priv))
		default:
			_, e2 := kmc.SignHash(nil, make([]byte, 32))
			verdict(e2 != nil, "signed while locked")
		}
	case "current-passphrase-unlocks", "unlocked-after-unlock", "locked-after-lock", "lock-wipes-every-secret", "unlock-lock-unlock-works":
		e := kmc.Unlock(priv)
		if m.Obligation == "current-passphrase-unlocks" {
			verdict(e == nil, fmt.Sprint(e))
			return
		}
		if m.Obligation == "unlocked-after-unlock" {
			verdict(!kmc.IsLocked() && a.unlocked, "flags not set")
			return
		}
		kmc.Lock()
		switch m.Obligation {
		case "locked-after-lock":
			verdict(kmc.IsLocked() && !a.unlocked, "flags still set")
		case "lock-wipes-every-secret":
			verdict(vsNativeNoSecrets(a, priv))
		default:
			e = kmc.Unlock(priv)
			verdict(e == nil, fmt.Sprint(e))
		}
	case "export-with-wrong-passphrase-refused", "delete-with-wrong-passphrase-refused", "refused-delete-keeps-keystore", "refused-export-delete-leave-no-secret":
		_, e1 := kmc.ExportKeystore(id, other)
		ok, e2 := kmc.DeleteKeystore(id, other)
		_, still := kmc.managedKeystores[id]
		switch m.Obligation {
		case "export-with-wrong-passphrase-refused":
			verdict(e1 != nil, "exported")
		case "delete-with-wrong-passphrase-refused":
			verdict(!ok && e2 != nil, "deleted")
		case "refused-delete-keeps-keystore":
			verdict(still, "keystore gone")
		default:
			verdict(vsNativeNoSecrets(a, priv))
		}
	case "export-with-current-passphrase-while-locked-leaves-no-secret":
		_, e1 := kmc.ExportKeystore(id, priv)
		if e1 != nil {
			fmt.Println("VSREPLAY-NO-SCENARIO: export failed natively:", e1)
			return
		}
		verdict(vsNativeNoSecrets(a, priv))
	case "change-with-current-passphrase-succeeds", "change-while-locked-stays-locked", "change-while-locked-leaves-no-secret",
		"superseded-passphrase-no-longer-unlocks", "superseded-passphrase-leaves-wallet-locked", "new-passphrase-unlocks":
		e := kmc.ChangePrivPassphrase(priv, np, opt)
		switch m.Obligation {
		case "change-with-current-passphrase-succeeds":
			verdict(e == nil, fmt.Sprint(e))
		case "change-while-locked-stays-locked":
			verdict(kmc.IsLocked() && !a.unlocked, "unlocked by a passphrase change")
		case "change-while-locked-leaves-no-secret":
			verdict(vsNativeNoSecrets(a, np))
		case "superseded-passphrase-no-longer-unlocks":
			verdict(kmc.Unlock(priv) != nil, "old passphrase still unlocks")
		case "superseded-passphrase-leaves-wallet-locked":
			kmc.Unlock(priv)
			verdict(!a.unlocked, "unlocked flag set")
		default:
			kmc.Unlock(priv)
			e = kmc.Unlock(np)
			verdict(e == nil, fmt.Sprint(e))
		}
	case "change-with-wrong-passphrase-refused", "refused-change-leaves-wallet-locked", "refused-change-leaves-no-secret", "refused-change-keeps-current-passphrase":
		e := kmc.ChangePrivPassphrase(other, np, opt)
		switch m.Obligation {
		case "change-with-wrong-passphrase-refused":
			verdict(e != nil, "changed with a wrong old passphrase")
		case "refused-change-leaves-wallet-locked":
			verdict(!a.unlocked, "unlocked")
		case "refused-change-leaves-no-secret":
			verdict(vsNativeNoSecrets(a, priv))
		default:
			e = kmc.Unlock(priv)
			verdict(e == nil, fmt.Sprint(e))
		}
	case "current-passphrase-unlocks-after-a-failed-attempt":
		kmc.Unlock(other)
		e := kmc.Unlock(priv)
		verdict(e == nil, fmt.Sprint(e))
	case "change-while-unlocked-succeeds", "lock-after-change-wipes-every-secret", "superseded-passphrase-no-longer-unlocks-after-relock":
		if e := kmc.Unlock(priv); e != nil {
			fmt.Println("VSREPLAY-NO-SCENARIO: unlock failed natively:", e)
			return
		}
		e := kmc.ChangePrivPassphrase(priv, np, opt)
		if m.Obligation == "change-while-unlocked-succeeds" {
			verdict(e == nil, fmt.Sprint(e))
			return
		}
		kmc.Lock()
		if m.Obligation == "lock-after-change-wipes-every-secret" {
			verdict(vsNativeNoSecrets(a, np))
			return
		}
		verdict(kmc.Unlock(priv) != nil, "old passphrase unlocks after relock")
	default:
		fmt.Println("VSREPLAY-NO-SCENARIO: no native scenario for", m.Obligation)
	}
}
