//go:build verif

package keystore

import (
	"massnet.org/mass/poc/wallet/keystore/hdkeychain"
	"massnet.org/mass/poc/wallet/keystore/snacl"
)

// VsH_Smoke: create a wallet and a keystore through the real code over the store model and the crypto contracts.
func VsH_Smoke() {
	vsStore = &vsStoreT{root: &vsBkt{name: ""}}
	pub := vsNondetBytes(6, "pubpass")
	priv := vsNondetBytes(6, "privpass")
	seed := vsNondetBytes(32, "seed")
	vsAssume(string(pub) != string(priv))
	kmc, err := NewKeystoreManagerForPoC(vsDBT{}, pub, vsParams)
	vsAssert(err == nil && kmc != nil, "manager-opens-on-empty-store")
	if err != nil {
		return
	}
	id, err := kmc.NewKeystore(priv, seed, "first", vsParams, &ScryptOptions{N: 16, R: 8, P: 1})
	vsAssert(err != ErrDuplicateSeed, "dbg-not-duplicate-seed")
	vsAssert(err != ErrIllegalPassphrase && err != ErrIllegalNewPrivPass && err != ErrIllegalSeed, "dbg-not-illegal-input")
	vsAssert(err != ErrBucketNotFound && err != ErrUnexpecteDBError, "dbg-not-bucket-error")
	vsAssert(err != ErrInvalidPassphrase && err != snacl.ErrDecryptFailed && err != snacl.ErrInvalidPassword && err != snacl.ErrMalformed, "dbg-not-crypto-error")
	vsAssert(err != hdkeychain.ErrInvalidChild && err != hdkeychain.ErrUnusableSeed && err != hdkeychain.ErrBadChecksum && err != hdkeychain.ErrInvalidKeyLen, "dbg-not-hd-error")
	vsAssert(err == nil, "keystore-created")
	vsAssert(len(id) > 0, "keystore-id-returned")
	vsReach("smoke")
}
