//go:build verif

package engine

// C09(c) flag/state helper laws for all 2^32 flag words and all 2^32 state values.
func VsH_FlagLaws() {
	f := WorkSpaceStateFlags(vsNondetU32("f"))
	s := WorkSpaceState(vsNondetU32("s"))
	vsAssert(s.IsValid() == (s <= 3), "isvalid-iff-0..3")
	vsAssert(f.IsNone() == (uint32(f)&15 == 0), "isnone-iff-low4-clear")
	if s.IsValid() {
		fl := s.Flag()
		vsAssert(fl == SFRegistered || fl == SFPlotting || fl == SFReady || fl == SFMining, "flag-is-defined")
		vsAssert((fl == SFRegistered) == (s == Registered) && (fl == SFPlotting) == (s == Plotting) && (fl == SFReady) == (s == Ready) && (fl == SFMining) == (s == Mining), "flag-matches-state")
		vsAssert(f.Contains(fl) == ((uint32(f)>>uint32(s))&1 == 1), "contains-iff-bit")
		sts := f.States()
		found := false
		for i, x := range sts {
			if x == s {
				found = true
			}
			if i > 0 {
				vsAssert(sts[i-1] < x, "states-ascending")
			}
			vsAssert(x.IsValid() && f.Contains(x.Flag()), "states-sound")
		}
		vsAssert(found == f.Contains(fl), "states-complete")
		vsAssert(len(sts) <= 4, "states-at-most-4")
		vsReach("valid-state")
	}
	g := WorkSpaceStateFlags(vsNondetU32("g"))
	// Contains is the subset relation on bit sets
	vsAssert(f.Contains(g) == (uint32(f)&uint32(g) == uint32(g)), "contains-subset")
	a := ActionType(vsNondetU8("a"))
	vsAssert(a.IsValid() == (a <= 4), "action-valid-iff-0..4")
	vsReach("end")
}
