//go:build verif

package capacity

import (
	"massnet.org/mass/poc/engine"
)

// VsH_Plotter: the real spacePlotter loop, sequentialised at its only yield point outside stateLock (the backend's
// Plot()), with up to K control requests chosen by vsFork issued at that point, then run to quiescence
// (vsRunUntilBlocked: the plotter parks at its idle select).
func VsH_Plotter() {
	const n = 2
	sk, wss, dbs := vsKeeper(n, []engine.WorkSpaceState{engine.Registered, engine.Registered}, []bool{true, true})
	stopped := make([]bool, n)   // last accepted request for the space was Stop
	gone := make([]bool, n)      // removed or deleted
	deleted := make([]bool, n)   // deleted
	asked := make([]bool, n)     // a plot/mine request is outstanding
	inChan := make([]bool, n)    // a request for the space sits in newQueuedWorkSpaceCh (not yet seen by the plotter)
	raced := make([]bool, n)     // a stop/remove was accepted while such a request was still in the channel
	wantMine := make([]bool, n)
	pending := make([]int, n)   // requests accepted while the space was still registered
	everMine := make([]bool, n) // ... one of them was a mine request
	firstMine := vsFork(2, "first.mine") == 1
	if firstMine {
		vsAssert(sk.MineWS(vsSids[0]) == nil, "initial-request-accepted")
	} else {
		vsAssert(sk.PlotWS(vsSids[0]) == nil, "initial-request-accepted")
	}
	asked[0], wantMine[0] = true, firstMine
	K := vsBound("envactions")
	rounds := 0
	keeperStopped := false
	inEnv := false
	lockCount := 0
	// second yield point: between the backend's Plot() returning and the plotter's step 3 taking stateLock, one more
	// request (on the space that just plotted) may get in
	vsSetLockHook(func(lock string) {
		if inEnv || lock != "capacity.SpaceKeeper.stateLock" {
			return
		}
		lockCount++
		if lockCount != 2 { // 1: step 1 of the first plot, 2: step 3 of the first plot
			return
		}
		inEnv = true
		a := vsFork(4, "late.action") // plot, mine, stop on the plotting space, or nothing
		if a < 3 {
			err := sk.ActOnWorkSpace(vsSids[0], engine.ActionType(a))
			if err == nil {
				switch engine.ActionType(a) {
				case engine.Plot, engine.Mine:
					stopped[0], asked[0], wantMine[0] = false, true, a == int(engine.Mine)
				case engine.Stop:
					stopped[0], asked[0], wantMine[0] = true, false, false
				}
			}
		}
		inEnv = false
	})
	env := func(d *vsDB) {
		rounds++
		if stopped[d.idx] {
			if raced[d.idx] {
				vsAssert(false, "stopped-space-is-plotted/stop-arrived-while-the-request-was-still-in-the-channel")
			} else {
				vsAssert(false, "stopped-space-is-plotted/other")
			}
		}
		if gone[d.idx] {
			if raced[d.idx] {
				vsAssert(false, "removed-space-is-plotted/remove-arrived-while-the-request-was-still-in-the-channel")
			} else {
				vsAssert(false, "removed-space-is-plotted/other")
			}
		}
		if !stopped[d.idx] && !gone[d.idx] {
			vsAssert(asked[d.idx], "plot-only-on-request")
		}
		vsAssert(wss[d.idx].state == engine.Plotting, "state-is-plotting-while-backend-plots")
		for i := 0; i < n; i++ {
			if i != d.idx {
				vsAssert(wss[i].state != engine.Plotting, "at-most-one-space-plots")
			}
		}
		vsAssert(!vsAnyLockHeld(), "plotter-holds-no-lock-while-plotting")
		if rounds == 1 {
			inEnv = true
			for j := 0; j < K; j++ {
				a := vsFork(7, "env.action")
				if a == 5 {
					break
				}
				if a == 6 { // stop the keeper service while the plot is in progress
					sk.BaseService.Start() // mark started (OnStart: wallet unlocked; goroutines are not spawned by the engine)
					vsAssert(sk.Stop() == nil, "keeper-stop-returns")
					keeperStopped = true
					break
				}
				t := vsFork(n, "env.target")
				pre := wss[t].state
				err := sk.ActOnWorkSpace(vsSids[t], engine.ActionType(a))
				switch engine.ActionType(a) {
				case engine.Plot, engine.Mine:
					if err == nil {
						stopped[t] = false
						asked[t] = true
						wantMine[t] = a == int(engine.Mine)
						if pre == engine.Registered {
							// several requests for a space that has not started yet are all served in turn, each plot may
							// complete or abort: which intent decides the final state is not fixed by the state machine
							pending[t]++
							everMine[t] = everMine[t] || a == int(engine.Mine)
						}
						if pre == engine.Registered {
							inChan[t] = true // stays there until the running plot finishes
						}
					}
				case engine.Stop:
					if err == nil {
						stopped[t] = true
						asked[t] = false
						raced[t] = inChan[t]
					}
				case engine.Remove, engine.Delete:
					if err == nil {
						gone[t] = true
						asked[t] = false
						raced[t] = inChan[t]
						deleted[t] = a == int(engine.Delete)
					} else {
						vsAssert(pre == engine.Plotting || pre == engine.Mining || gone[t], "remove-delete-refused-only-when-busy-or-gone")
					}
				}
			}
		}
		inEnv = false
		// contract of the backend: StopPlot makes Plot return unfinished; otherwise it may finish or abort
		if d.stopCalls > 0 {
			d.plotted = false
		} else {
			d.plotted = vsNondetBool("plot.completes")
		}
	}
	for i := range dbs {
		dbs[i].onPlot = env
	}
	returned := vsRunUntilBlocked(func() { sk.spacePlotter() })
	vsSetLockHook(nil)
	vsAssert(returned == keeperStopped, "plotter-keeps-running-until-stopped-and-exits-when-stopped")
	if keeperStopped {
		vsAssert(!vsAnyLockHeld(), "locks-released-after-keeper-stop")
		vsReach("keeper-stopped")
		return
	}
	if dbs[0].plotting || dbs[1].plotting {
		// the plotter thread is parked inside Plot(): a request issued at the yield point blocked (reported as a
		// blocking-while-locked event by the engine); the quiescence obligations below do not apply
		vsReach("parked-inside-plot")
		return
	}
	vsAssert(!vsAnyLockHeld(), "plotter-parks-without-holding-locks")
	vsAssert(vsInv(sk, wss, deleted), "invariant-at-quiescence")
	for i := 0; i < n; i++ {
		if deleted[i] {
			continue
		}
		st := wss[i].state
		vsAssert(st != engine.Plotting, "nothing-left-plotting-at-quiescence")
		if stopped[i] {
			if raced[i] {
				vsAssert(st == engine.Registered || st == engine.Ready, "stopped-space-ends-plotting-or-mining/stop-arrived-while-the-request-was-still-in-the-channel")
			} else {
				vsAssert(st == engine.Registered || st == engine.Ready, "stopped-space-ends-plotting-or-mining/other")
			}
		}
		if gone[i] {
			vsAssert(!wss[i].using, "removed-space-stays-removed")
		}
		if st == engine.Ready || st == engine.Mining {
			vsAssert(dbs[i].plotted, "ready-or-mining-only-if-table-complete")
		}
		if asked[i] && !gone[i] && dbs[i].plotted && dbs[i].plotCalls > 0 {
			if pending[i] > 1 {
				vsAssert(st == engine.Ready || (st == engine.Mining && everMine[i]), "completed-plot-after-several-requests-is-ready-or-mining-as-asked")
			} else if wantMine[i] {
				vsAssert(st == engine.Mining, "completed-plot-with-mine-intent-mines")
			} else {
				vsAssert(st == engine.Ready, "completed-plot-without-mine-intent-is-ready")
			}
		}
		if dbs[i].plotCalls > 0 && !dbs[i].plotted && !gone[i] {
			vsAssert(st == engine.Registered, "aborted-plot-returns-to-registered")
		}
	}
	vsAssert(dbs[0].delCalls+dbs[1].delCalls <= 2, "sanity")
	vsReach("quiescent")
}
