//go:build verif

package skchia

// Port of the capacity keeper's single-step and query harnesses (C09/h_keeper.go) to the chia keeper (engine.v2): same
// state machine, same oracle; the chia workspace has no plotting backend (Plot/StopPlot/Delete are no-ops), so the
// obligations about backend calls are dropped. Generated from h_keeper.go by tools (kept in sync by hand).

import (
	"github.com/massnetorg/mass-core/massutil/service"
	"github.com/massnetorg/mass-core/poc/chiapos"
	"massnet.org/mass/poc/engine.v2"
)

var vsSidsS = []string{"aa-32", "bb-32", "cc-32"}

func vsKeeperS(n int, states []engine.WorkSpaceState, using []bool) (*SpaceKeeper, []*WorkSpace) {
	sk := &SpaceKeeper{
		allowGenerateNewSpace: true,
		dbDirs:                []string{"/d0"},
		dbType:                "vs",
		workSpacePaths:        make(map[string]*WorkSpacePath),
		workSpaceList:         make([]*WorkSpace, 0),
		queue:                 newPlotterQueue(),
		newQueuedWorkSpaceCh:  make(chan *queuedWorkSpace, plotterMaxChanSize),
		fileWatcher:           func() {},
	}
	sk.BaseService = service.NewBaseService(sk, "vs")
	sk.quit = make(chan struct{})
	for s := engine.FirstState; s <= allState; s++ {
		sk.workSpaceIndex = append(sk.workSpaceIndex, NewWorkSpaceMap())
	}
	var wss []*WorkSpace
	for i := 0; i < n; i++ {
		id := &SpaceID{info: &chiapos.PlotInfo{}, bitLength: 32, ordinal: int64(i), str: vsSidsS[i]}
		id.plotID[0] = byte(i + 1)
		ws := &WorkSpace{id: id, state: states[i], using: using[i], rootDir: "/d0"}
		sk.workSpaceIndex[allState].Set(vsSidsS[i], ws)
		sk.workSpaceIndex[states[i]].Set(vsSidsS[i], ws)
		if using[i] {
			sk.workSpaceList = append(sk.workSpaceList, ws)
		}
		wss = append(wss, ws)
	}
	return sk, wss
}

func vsInvS(sk *SpaceKeeper, wss []*WorkSpace, deleted []bool) bool {
	ok := true
	nPlotting := 0
	for i, ws := range wss {
		sid := vsSidsS[i]
		if deleted != nil && deleted[i] {
			if sk.workSpaceIndex[allState].Has(sid) {
				ok = false
			}
			continue
		}
		if !ws.state.IsValid() {
			ok = false
			continue
		}
		if ws.state == engine.Plotting {
			nPlotting++
		}
		for s := engine.FirstState; s <= engine.LastState; s++ {
			if sk.workSpaceIndex[s].Has(sid) != (s == ws.state) {
				ok = false
			}
		}
		if !sk.workSpaceIndex[allState].Has(sid) {
			ok = false
		}
		listed := false
		for _, e := range sk.workSpaceList {
			if e == ws {
				listed = true
			}
		}
		if listed != ws.using {
			ok = false
		}
	}
	return ok && nPlotting <= 1
}

func vsQueueHasS(sk *SpaceKeeper, sid string) bool {
	// destructive scan (used only at the end of a harness)
	found := false
	for !sk.queue.Empty() {
		q := sk.queue.Prque.PopItem().(*queuedWorkSpace)
		if q.ws.id.String() == sid {
			found = true
		}
	}
	return found
}

func vsChanHasS(sk *SpaceKeeper, sid string) (found bool, mining bool) {
	for len(sk.newQueuedWorkSpaceCh) > 0 {
		q := <-sk.newQueuedWorkSpaceCh
		if q.ws.id.String() == sid {
			found = true
			mining = q.wouldMining
		}
	}
	return
}

// VsH_Step: one control request from an arbitrary keeper state satisfying the invariant. Case split (vsFork) over the
// states of two workspaces, their `using` flags, queue membership, the action and the addressed id (incl. an unknown one).
func VsH_SkchiaStep() {
	const n = 2
	states := make([]engine.WorkSpaceState, n)
	using := make([]bool, n)
	queued := make([]bool, n)
	plottingIdx := -1
	for i := 0; i < n; i++ {
		states[i] = engine.WorkSpaceState(vsFork(4, "state"))
		using[i] = vsFork(2, "using") == 1
		if states[i] == engine.Plotting {
			if plottingIdx >= 0 {
				return // at most one space plots at a time (invariant)
			}
			plottingIdx = i
		}
		if using[i] {
			// a request for the space may still sit in the plotter queue whatever its present state (duplicate requests,
			// or a request queued before the state changed)
			queued[i] = vsFork(2, "queued") == 1
		}
	}
	sk, wss := vsKeeperS(n, states, using)
	for i := 0; i < n; i++ {
		if queued[i] {
			q := newQueuedWorkSpace(wss[i], vsNondetBool("queued.wouldMining"))
			sk.queue.Push(q, q.priority())
		}
	}
	wouldMining0 := vsNondetBool("popped.wouldMining")
	var popped *queuedWorkSpace
	if plottingIdx >= 0 {
		popped = newQueuedWorkSpace(wss[plottingIdx], wouldMining0)
		sk.queue.poppedItem = popped
	}
	vsAssert(vsInvS(sk, wss, nil), "pre-state-satisfies-invariant")

	action := engine.ActionType(vsFork(5, "action"))
	t := vsFork(n+1, "target")
	sid := "zz-32"
	if t < n {
		sid = vsSidsS[t]
	}
	err := sk.ActOnWorkSpace(sid, action)

	vsAssert(!vsAnyLockHeld(), "all-locks-released-on-return")
	deleted := make([]bool, n)
	if t == n || !using[t] {
		vsAssert(err == ErrWorkSpaceDoesNotExist, "unknown-or-unused-space-refused")
		for i := 0; i < n; i++ {
			vsAssert(wss[i].state == states[i] && wss[i].using == using[i], "refused-request-changes-nothing")
		}
		vsAssert(vsInvS(sk, wss, nil), "post-state-satisfies-invariant")
		vsReach("refused")
		return
	}
	pre := states[t]
	ws := wss[t]
	// other workspaces are never affected by a request addressed to t
	for i := 0; i < n; i++ {
		if i != t {
			vsAssert(wss[i].state == states[i] && wss[i].using == using[i], "other-spaces-untouched")
		}
	}
	switch action {
	case engine.Plot, engine.Mine:
		vsAssert(err == nil, "plot-mine-accepted")
		vsAssert(ws.using, "still-configured")
		switch pre {
		case engine.Registered:
			vsAssert(ws.state == engine.Registered, "registered-stays-until-plotter-picks-it")
			found, mining := vsChanHasS(sk, sid)
			vsAssert(found && mining == (action == engine.Mine), "registered-request-is-queued-with-intent")
		case engine.Plotting:
			vsAssert(ws.state == engine.Plotting, "plotting-stays")
			vsAssert(popped.wouldMining == (action == engine.Mine), "plotting-intent-updated")
		case engine.Ready:
			if action == engine.Mine {
				vsAssert(ws.state == engine.Mining, "ready-mine-becomes-mining")
			} else {
				vsAssert(ws.state == engine.Ready, "ready-plot-stays-ready")
			}
		case engine.Mining:
			vsAssert(ws.state == engine.Mining, "mining-stays-mining")
		}
	case engine.Stop:
		vsAssert(err == nil, "stop-accepted")
		vsAssert(ws.using, "stop-keeps-space")
		vsAssert(!vsQueueHasS(sk, sid), "stop-clears-queue-entry")
		switch pre {
		case engine.Registered:
			vsAssert(ws.state == engine.Registered, "stop-registered-noop")
		case engine.Plotting:
			vsAssert(!popped.wouldMining, "stop-plotting-clears-mining-intent")
		case engine.Ready:
			vsAssert(ws.state == engine.Ready, "stop-ready-noop")
		case engine.Mining:
			vsAssert(ws.state == engine.Ready, "stop-mining-becomes-ready")
		}
	case engine.Remove, engine.Delete:
		if pre == engine.Plotting || pre == engine.Mining {
			vsAssert(err == ErrWorkSpaceIsNotStill, "remove-delete-refused-while-plotting-or-mining")
			vsAssert(ws.state == pre && ws.using, "refused-remove-delete-changes-nothing")
		} else {
			vsAssert(err == nil, "remove-delete-accepted-when-still")
			vsAssert(!ws.using, "removed-space-no-longer-configured")
			vsAssert(!vsQueueHasS(sk, sid), "removed-space-not-queued")
			if action == engine.Delete {
				deleted[t] = true
			} else {
				vsAssert(ws.state == pre, "remove-keeps-state")
			}
		}
	}
	vsAssert(vsInvS(sk, wss, deleted), "post-state-satisfies-invariant")
	vsReach("acted")
}

// VsH_Queries: WorkSpaceIDs / WorkSpaceInfos / the set {w | using ∧ state ∈ f} coincide for every flag word.
func VsH_SkchiaQueries() {
	const n = 3
	states := make([]engine.WorkSpaceState, n)
	using := make([]bool, n)
	for i := 0; i < n; i++ {
		states[i] = engine.WorkSpaceState(vsFork(4, "state"))
		using[i] = vsFork(2, "using") == 1
	}
	sk, _ := vsKeeperS(n, states, using)
	f := engine.WorkSpaceStateFlags(vsNondetU32("flags"))
	ids, err := sk.WorkSpaceIDs(f)
	infos, err2 := sk.WorkSpaceInfos(f)
	vsAssert(err == nil && err2 == nil, "queries-never-fail")
	vsAssert(len(ids) == len(infos), "ids-and-infos-same-length")
	want := 0
	for i := 0; i < n; i++ {
		in := using[i] && f.Contains(states[i].Flag())
		if in {
			want++
		}
		got := false
		for j := range ids {
			if ids[j] == vsSidsS[i] {
				got = true
				vsAssert(infos[j].SpaceID == ids[j] && infos[j].State == states[i], "info-matches-id-and-state")
			}
		}
		vsAssert(got == in, "listed-iff-using-and-state-in-flags")
	}
	vsAssert(len(ids) == want, "no-duplicates-no-strangers")
	vsAssert(!vsAnyLockHeld(), "all-locks-released-on-return")
	vsReach("queried")
}
