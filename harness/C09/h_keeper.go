//go:build verif

package capacity

import (
	"massnet.org/mass/poc/engine"
)

func vsQueueHas(sk *SpaceKeeper, sid string) bool {
	// destructive scan (used only at the end of a harness)
	found := false
	for !sk.queue.Empty() {
		q := sk.queue.Prque.PopItem().(*queuedWorkSpace)
		if q.ws.id.String() == sid {
			found = true
		}
	}
	return found
}

func vsChanHas(sk *SpaceKeeper, sid string) (found bool, mining bool) {
	for len(sk.newQueuedWorkSpaceCh) > 0 {
		q := <-sk.newQueuedWorkSpaceCh
		if q.ws.id.String() == sid {
			found = true
			mining = q.wouldMining
		}
	}
	return
}

// VsH_Step: one control request from an arbitrary keeper state satisfying the invariant. Case split (vsFork) over the
// states of two workspaces, their `using` flags, queue membership, the action and the addressed id (incl. an unknown one).
func VsH_Step() {
	const n = 2
	states := make([]engine.WorkSpaceState, n)
	using := make([]bool, n)
	queued := make([]bool, n)
	dupQueued := make([]bool, n)
	plottingIdx := -1
	for i := 0; i < n; i++ {
		states[i] = engine.WorkSpaceState(vsFork(4, "state"))
		using[i] = vsFork(2, "using") == 1
		if states[i] == engine.Plotting {
			if plottingIdx >= 0 {
				return // at most one space plots at a time (invariant)
			}
			plottingIdx = i
		}
		if using[i] {
			// a request for the space may still sit in the plotter queue whatever its present state (duplicate requests,
			// or a request queued before the state changed)
			// (zero, one or two entries: the same space may be queued twice, e.g. plot then mine before the plotter ran)
			nq := vsFork(3, "queued")
			queued[i] = nq >= 1
			dupQueued[i] = nq == 2
		}
	}
	sk, wss, dbs := vsKeeper(n, states, using)
	for i := 0; i < n; i++ {
		dbs[i].plotted = states[i] == engine.Ready || states[i] == engine.Mining
		if queued[i] {
			q := newQueuedWorkSpace(wss[i], vsNondetBool("queued.wouldMining"))
			sk.queue.Push(q, q.priority())
			if dupQueued[i] {
				q2 := newQueuedWorkSpace(wss[i], vsNondetBool("queued.wouldMining"))
				sk.queue.Push(q2, q2.priority())
			}
		}
	}
	wouldMining0 := vsNondetBool("popped.wouldMining")
	var popped *queuedWorkSpace
	if plottingIdx >= 0 {
		popped = newQueuedWorkSpace(wss[plottingIdx], wouldMining0)
		sk.queue.poppedItem = popped
	}
	vsAssert(vsInv(sk, wss, nil), "pre-state-satisfies-invariant")

	action := engine.ActionType(vsFork(5, "action"))
	t := vsFork(n+1, "target")
	sid := "zz-24"
	if t < n {
		sid = vsSids[t]
	}
	err := sk.ActOnWorkSpace(sid, action)

	vsAssert(!vsAnyLockHeld(), "all-locks-released-on-return")
	deleted := make([]bool, n)
	if t == n || !using[t] {
		vsAssert(err == ErrWorkSpaceDoesNotExist, "unknown-or-unused-space-refused")
		for i := 0; i < n; i++ {
			vsAssert(wss[i].state == states[i] && wss[i].using == using[i], "refused-request-changes-nothing")
			vsAssert(dbs[i].stopCalls == 0 && dbs[i].delCalls == 0 && dbs[i].plotCalls == 0, "refused-request-touches-no-backend")
		}
		vsAssert(vsInv(sk, wss, nil), "post-state-satisfies-invariant")
		vsReach("refused")
		return
	}
	pre := states[t]
	ws, d := wss[t], dbs[t]
	// other workspaces are never affected by a request addressed to t
	for i := 0; i < n; i++ {
		if i != t {
			vsAssert(wss[i].state == states[i] && wss[i].using == using[i], "other-spaces-untouched")
			vsAssert(dbs[i].stopCalls == 0 && dbs[i].delCalls == 0 && dbs[i].plotCalls == 0, "other-backends-untouched")
		}
	}
	vsAssert(d.plotCalls == 0, "requests-never-plot-synchronously")
	switch action {
	case engine.Plot, engine.Mine:
		vsAssert(err == nil, "plot-mine-accepted")
		vsAssert(ws.using, "still-configured")
		vsAssert(d.stopCalls == 0 && d.delCalls == 0, "plot-mine-never-stop-or-delete")
		switch pre {
		case engine.Registered:
			vsAssert(ws.state == engine.Registered, "registered-stays-until-plotter-picks-it")
			found, mining := vsChanHas(sk, sid)
			vsAssert(found && mining == (action == engine.Mine), "registered-request-is-queued-with-intent")
		case engine.Plotting:
			vsAssert(ws.state == engine.Plotting, "plotting-stays")
			vsAssert(popped.wouldMining == (action == engine.Mine), "plotting-intent-updated")
		case engine.Ready:
			if action == engine.Mine {
				vsAssert(ws.state == engine.Mining, "ready-mine-becomes-mining")
			} else {
				vsAssert(ws.state == engine.Ready, "ready-plot-stays-ready")
			}
		case engine.Mining:
			vsAssert(ws.state == engine.Mining, "mining-stays-mining")
		}
	case engine.Stop:
		vsAssert(err == nil, "stop-accepted")
		vsAssert(ws.using && d.delCalls == 0, "stop-keeps-space")
		vsAssert(!vsQueueHas(sk, sid), "stop-clears-queue-entry")
		switch pre {
		case engine.Registered:
			vsAssert(ws.state == engine.Registered && d.stopCalls == 0, "stop-registered-noop")
		case engine.Plotting:
			vsAssert(d.stopCalls == 1, "stop-plotting-stops-backend")
			vsAssert(!popped.wouldMining, "stop-plotting-clears-mining-intent")
		case engine.Ready:
			vsAssert(ws.state == engine.Ready && d.stopCalls == 0, "stop-ready-noop")
		case engine.Mining:
			vsAssert(ws.state == engine.Ready && d.stopCalls == 0, "stop-mining-becomes-ready")
		}
	case engine.Remove, engine.Delete:
		if pre == engine.Plotting || pre == engine.Mining {
			vsAssert(err == ErrWorkSpaceIsNotStill, "remove-delete-refused-while-plotting-or-mining")
			vsAssert(ws.state == pre && ws.using && d.delCalls == 0, "refused-remove-delete-changes-nothing")
		} else {
			vsAssert(err == nil, "remove-delete-accepted-when-still")
			vsAssert(!ws.using, "removed-space-no-longer-configured")
			vsAssert(!vsQueueHas(sk, sid), "removed-space-not-queued")
			if action == engine.Delete {
				vsAssert(d.delCalls == 1, "delete-erases-exactly-once")
				deleted[t] = true
			} else {
				vsAssert(d.delCalls == 0, "remove-erases-nothing")
				vsAssert(ws.state == pre, "remove-keeps-state")
			}
		}
	}
	vsAssert(vsInv(sk, wss, deleted), "post-state-satisfies-invariant")
	vsReach("acted")
}

// VsH_Queries: WorkSpaceIDs / WorkSpaceInfos / the set {w | using ∧ state ∈ f} coincide for every flag word.
func VsH_Queries() {
	const n = 3
	states := make([]engine.WorkSpaceState, n)
	using := make([]bool, n)
	for i := 0; i < n; i++ {
		states[i] = engine.WorkSpaceState(vsFork(4, "state"))
		using[i] = vsFork(2, "using") == 1
	}
	sk, _, _ := vsKeeper(n, states, using)
	f := engine.WorkSpaceStateFlags(vsNondetU32("flags"))
	ids, err := sk.WorkSpaceIDs(f)
	infos, err2 := sk.WorkSpaceInfos(f)
	vsAssert(err == nil && err2 == nil, "queries-never-fail")
	vsAssert(len(ids) == len(infos), "ids-and-infos-same-length")
	want := 0
	for i := 0; i < n; i++ {
		in := using[i] && f.Contains(states[i].Flag())
		if in {
			want++
		}
		got := false
		for j := range ids {
			if ids[j] == vsSids[i] {
				got = true
				vsAssert(infos[j].SpaceID == ids[j] && infos[j].State == states[i], "info-matches-id-and-state")
			}
		}
		vsAssert(got == in, "listed-iff-using-and-state-in-flags")
	}
	vsAssert(len(ids) == want, "no-duplicates-no-strangers")
	vsAssert(!vsAnyLockHeld(), "all-locks-released-on-return")
	vsReach("queried")
}
