//go:build verif

package capacity

import (
	"massnet.org/mass/poc/engine"
)

// VsH_Bulk: one bulk request ActOnWorkSpaces(flags, action) on three configured workspaces in arbitrary states (at most
// one plotting), for the flag sets "all", "registered|ready" and "mining|plotting". Every space whose state is in the
// flags gets exactly the outcome the single-space request would give it (same transition, same refusal), every other
// space is untouched and absent from the result map, and the invariant holds afterwards.
func VsH_Bulk() {
	const n = 3
	states := make([]engine.WorkSpaceState, n)
	using := make([]bool, n)
	plottingIdx := -1
	for i := 0; i < n; i++ {
		states[i] = engine.WorkSpaceState(vsFork(4, "state"))
		using[i] = true
		if states[i] == engine.Plotting {
			if plottingIdx >= 0 {
				return
			}
			plottingIdx = i
		}
	}
	sk, wss, dbs := vsKeeper(n, states, using)
	for i := 0; i < n; i++ {
		dbs[i].plotted = states[i] == engine.Ready || states[i] == engine.Mining
	}
	var popped *queuedWorkSpace
	if plottingIdx >= 0 {
		popped = newQueuedWorkSpace(wss[plottingIdx], vsNondetBool("popped.wouldMining"))
		sk.queue.poppedItem = popped
	}
	action := engine.ActionType(vsFork(5, "action"))
	flags := []engine.WorkSpaceStateFlags{engine.SFAll, engine.SFRegistered | engine.SFReady, engine.SFMining | engine.SFPlotting}[vsFork(3, "flags")]
	errs, err := sk.ActOnWorkSpaces(flags, action)
	vsAssert(err == nil, "bulk-request-with-valid-action-is-accepted")
	vsAssert(!vsAnyLockHeld(), "all-locks-released-on-return")
	deleted := make([]bool, n)
	for i := 0; i < n; i++ {
		sid := vsSids[i]
		e, listed := errs[sid]
		in := flags.Contains(states[i].Flag())
		vsAssert(listed == in, "result-lists-exactly-the-spaces-in-the-flags")
		ws, d := wss[i], dbs[i]
		if !in {
			vsAssert(ws.state == states[i] && ws.using && d.stopCalls == 0 && d.delCalls == 0, "space-outside-the-flags-is-untouched")
			continue
		}
		pre := states[i]
		switch action {
		case engine.Plot, engine.Mine:
			vsAssert(e == nil && ws.using && d.stopCalls == 0 && d.delCalls == 0, "bulk-plot-mine-accepted-without-stopping-or-deleting")
			switch pre {
			case engine.Registered:
				vsAssert(ws.state == engine.Registered, "bulk-registered-stays-until-plotter-picks-it")
			case engine.Plotting:
				vsAssert(ws.state == engine.Plotting && popped.wouldMining == (action == engine.Mine), "bulk-plotting-intent-updated")
			case engine.Ready:
				vsAssert((action == engine.Mine && ws.state == engine.Mining) || (action == engine.Plot && ws.state == engine.Ready), "bulk-ready-follows-the-request")
			case engine.Mining:
				vsAssert(ws.state == engine.Mining, "bulk-mining-stays-mining")
			}
		case engine.Stop:
			vsAssert(e == nil && ws.using && d.delCalls == 0, "bulk-stop-keeps-space")
			switch pre {
			case engine.Registered, engine.Ready:
				vsAssert(ws.state == pre && d.stopCalls == 0, "bulk-stop-still-space-noop")
			case engine.Plotting:
				vsAssert(d.stopCalls == 1 && !popped.wouldMining, "bulk-stop-plotting-stops-backend")
			case engine.Mining:
				vsAssert(ws.state == engine.Ready, "bulk-stop-mining-becomes-ready")
			}
		case engine.Remove, engine.Delete:
			if pre == engine.Plotting || pre == engine.Mining {
				vsAssert(e == ErrWorkSpaceIsNotStill, "bulk-remove-delete-refused-while-plotting-or-mining")
				vsAssert(ws.state == pre && ws.using && d.delCalls == 0, "bulk-refused-remove-delete-changes-nothing")
			} else {
				vsAssert(e == nil && !ws.using, "bulk-remove-delete-takes-every-still-space-in-the-flags")
				if action == engine.Delete {
					vsAssert(d.delCalls == 1, "bulk-delete-erases-exactly-once")
					deleted[i] = true
				} else {
					vsAssert(d.delCalls == 0 && ws.state == pre, "bulk-remove-erases-nothing")
				}
			}
		}
	}
	vsAssert(vsInv(sk, wss, deleted), "post-state-satisfies-invariant")
	vsReach("bulk-acted")
}
