package protocol

// Native replay of a C16 decode_total / type_prefix counterexample: rebuilds the frame the model describes as real
// JSON text and feeds it to the real DecodeMessage (real encoding/json, uuid, hex), recovering a panic.

import (
	"encoding/json"
	"fmt"
	"os"
	"regexp"
	"strconv"
	"strings"
	"testing"
)

type vsModel struct {
	Harness    string            `json:"harness"`
	Obligation string            `json:"obligation"`
	Case       string            `json:"case"`
	Model      map[string]string `json:"model"`
}

func (m *vsModel) u(name string) uint64 {
	v, ok := m.Model[name]
	if !ok {
		return 0
	}
	x, _ := strconv.ParseUint(strings.TrimPrefix(v, "0x"), 16, 64)
	return x
}

func (m *vsModel) caseInt(label string) int {
	re := regexp.MustCompile(label + `=(\d+)`)
	if s := re.FindStringSubmatch(m.Case); s != nil {
		n, _ := strconv.Atoi(s[1])
		return n
	}
	return -1
}

func (m *vsModel) str(name string) string {
	n := int(m.u(name + ".len"))
	if _, ok := m.Model[name+".len"]; !ok {
		n = 0
		for {
			if _, ok := m.Model[fmt.Sprintf("%s[%d]", name, n)]; !ok {
				break
			}
			n++
		}
	}
	b := make([]byte, n)
	for i := range b {
		b[i] = byte(m.u(fmt.Sprintf("%s[%d]", name, i)))
	}
	return string(b)
}

const vsValidUUID = "6ba7b810-9dad-11d1-80b4-00c04fd430c8"

func TestVsReplayC16(t *testing.T) {
	raw, err := os.ReadFile(os.Getenv("VS_MODEL"))
	if err != nil {
		t.Fatal(err)
	}
	var m vsModel
	if err := json.Unmarshal(raw, &m); err != nil {
		t.Fatal(err)
	}
	typ := m.caseInt("type")
	if typ < 0 { // type_prefix harness: symbolic prefix
		typ = int(m.u("frame[1]"))
	}
	tid := m.str("tid")
	if m.u("uuid_err") == 0 {
		tid = vsValidUUID // the stub said "parses": use a string the real parser accepts
	}
	var payload []byte
	switch typ {
	case 2:
		msg := &MsgReportQualities{TaskID: tid}
		n := m.caseInt("nqualities")
		for i := 0; i < n; i++ {
			if m.u("quality_null") != 0 || true {
				// the model's first element decides; later ones equal (names are per-site)
				if m.u("quality_null") != 0 {
					msg.Qualities = append(msg.Qualities, nil)
					continue
				}
			}
			msg.Qualities = append(msg.Qualities, &MsgQuality{SpaceID: m.str("q.space"), PublicKey: m.str("q.pk"), PoolPublicKey: m.str("q.ppk"), Quality: m.str("q.quality"), PlotID: m.str("q.plot")})
		}
		payload, _ = json.Marshal(msg)
	case 4:
		msg := &MsgReportProof{TaskID: tid}
		if m.u("proof_null") == 0 {
			msg.Proof = &MsgProof{SpaceID: m.str("p.space"), Challenge: m.str("p.challenge"), PoolPublicKey: m.str("p.ppk"), PlotPublicKey: m.str("p.pk"), Proof: m.str("p.proof")}
		}
		payload, _ = json.Marshal(msg)
	case 1:
		payload, _ = json.Marshal(&MsgRequestQualities{TaskID: tid, Challenge: m.str("challenge"), ParentTarget: m.str("target")})
	case 3:
		payload, _ = json.Marshal(&MsgRequestProof{TaskID: tid, SpaceID: m.str("space"), Challenge: m.str("challenge")})
	case 5:
		payload, _ = json.Marshal(&MsgRequestSignature{TaskID: tid, SpaceID: m.str("space"), Hash: m.str("hash")})
	case 6:
		payload, _ = json.Marshal(&MsgReportSignature{TaskID: tid, SpaceID: m.str("space"), Hash: m.str("hash"), Signature: m.str("sig")})
	default:
		payload = []byte("{}")
	}
	frame := append([]byte{0, byte(typ)}, payload...)
	fmt.Printf("replaying frame: %x %s\n", frame[:2], payload)
	panicked := func() (p interface{}) {
		defer func() { p = recover() }()
		DecodeMessage(frame)
		return nil
	}()
	if strings.HasPrefix(m.Obligation, "panic:") {
		if panicked != nil {
			fmt.Printf("VSREPLAY-CONFIRMED: DecodeMessage panicked: %v\n", panicked)
		} else {
			fmt.Println("VSREPLAY-NOT-REPRODUCED: DecodeMessage returned normally")
		}
		return
	}
	fmt.Println("VSREPLAY-NO-SCENARIO: no native oracle for obligation", m.Obligation)
}
