//go:build verif

package protocol

import (
	"bytes"
	"errors"
	"math/big"

	"github.com/google/uuid"
	"github.com/massnetorg/mass-core/poc/chiapos"
	"github.com/massnetorg/mass-core/poc/pocutil"
	engine_v2 "massnet.org/mass/poc/engine.v2"
)

// JSON as an inverse pair over the Msg structs: Marshal remembers the value, Unmarshal hands back a field-wise copy.
var vsMarshalled interface{}

func vsJSONMarshal(v interface{}) ([]byte, error) {
	vsMarshalled = v
	return []byte{'{', '}'}, nil
}

func vsJSONCopyBack(v interface{}) error {
	switch t := v.(type) {
	case *MsgRequestQualities:
		*t = *vsMarshalled.(*MsgRequestQualities)
	case *MsgReportQualities:
		*t = *vsMarshalled.(*MsgReportQualities)
	case *MsgRequestProof:
		*t = *vsMarshalled.(*MsgRequestProof)
	case *MsgReportProof:
		*t = *vsMarshalled.(*MsgReportProof)
	case *MsgRequestSignature:
		*t = *vsMarshalled.(*MsgRequestSignature)
	case *MsgReportSignature:
		*t = *vsMarshalled.(*MsgReportSignature)
	default:
		return errors.New("unexpected target")
	}
	return nil
}

// textual UUID form as a bijection (the real form is an injective 36-character rendering)
func vsUUIDString(u uuid.UUID) string { return string(u[:]) }

func vsUUID(name string) uuid.UUID {
	var u uuid.UUID
	copy(u[:], vsNondetBytes(16, name))
	return u
}

func vsHash(name string) pocutil.Hash {
	var h pocutil.Hash
	copy(h[:], vsNondetBytes(32, name))
	return h
}

func vsG1(name string) *chiapos.G1Element {
	var g chiapos.G1Element
	copy(g[:], vsNondetBytes(48, name))
	return &g
}

// VsH_RoundTrip: for each of the six message types, DecodeMessage(EncodeMessage(m)) is a message of the same type whose
// every field equals m's (JSON and the UUID text form are inverse pairs by contract; hex and big-integer text are the
// real code).
func VsH_RoundTrip() {
	vsRoundTripMode = true
	tid := vsUUID("tid")
	var m Message
	typ := 1 + vsFork(6, "type")
	switch MsgType(typ) {
	case MsgTypeRequestQualities:
		target := new(big.Int).SetBytes(vsNondetBytesUpTo(vsBound("targetbytes"), "target"))
		m = &RequestQualities{TaskID: tid, Challenge: vsHash("challenge"), ParentTarget: target, ParentSlot: vsNondetU64("slot"), Height: vsNondetU64("height")}
	case MsgTypeReportQualities:
		n := vsFork(3, "nq") // 0, 1 or 2 entries; two entries may or may not share their space id (symbolic)
		rq := &ReportQualities{TaskID: tid}
		for i := 0; i < n; i++ {
			var plot [32]byte
			copy(plot[:], vsNondetBytes(32, "plot"))
			rq.Qualities = append(rq.Qualities, &Quality{WorkSpaceQuality: &engine_v2.WorkSpaceQuality{SpaceID: vsNondetString(2, "space"), PublicKey: vsG1("pk"), PoolPublicKey: vsG1("ppk"),
				Index: vsNondetU32("index"), KSize: vsNondetU8("k"), Quality: vsNondetBytes(2, "quality"), PlotID: plot}, Slot: vsNondetU64("qslot")})
		}
		m = rq
	case MsgTypeRequestProof:
		m = &RequestProof{TaskID: tid, Height: vsNondetU64("height"), SpaceID: vsNondetString(2, "space"), Challenge: vsHash("challenge"), Index: vsNondetU32("index")}
	case MsgTypeReportProof:
		pk := vsG1("pk")
		pos := &chiapos.ProofOfSpace{Challenge: vsHash("challenge"), PoolPublicKey: vsG1("ppk"), PlotPublicKey: pk, KSize: vsNondetU8("k"), Proof: vsNondetBytes(3, "proof")}
		m = &ReportProof{TaskID: tid, Proof: &Proof{SpaceID: vsNondetString(2, "space"), Proof: pos, PublicKey: pk, Ordinal: engine_v2.UnknownOrdinal}}
	case MsgTypeRequestSignature:
		m = &RequestSignature{TaskID: tid, Height: vsNondetU64("height"), SpaceID: vsNondetString(2, "space"), Hash: vsHash("hash")}
	case MsgTypeReportSignature:
		var g chiapos.G2Element
		copy(g[:], vsNondetBytes(96, "sig"))
		m = &ReportSignature{TaskID: tid, SpaceID: vsNondetString(2, "space"), Hash: vsHash("hash"), Signature: &g}
	}
	data, err := EncodeMessage(m)
	vsAssert(err == nil, "encode-succeeds")
	// a frame handed out stays what it was while the next message is encoded (frames are queued for sending)
	held := append([]byte{}, data...)
	saved := vsMarshalled // (the JSON stand-in remembers the last marshalled value)
	_, err2 := EncodeMessage(&RequestSignature{TaskID: vsUUID("tid2"), Height: vsNondetU64("height2"), SpaceID: vsNondetString(2, "space2"), Hash: vsHash("hash2")})
	vsAssert(err2 == nil && bytes.Equal(data, held), "encoded-frame-is-not-changed-by-the-next-encode")
	vsMarshalled = saved
	back, err := DecodeMessage(data)
	vsAssert(err == nil && back != nil, "decode-of-encoded-message-succeeds")
	if err != nil || back == nil {
		return
	}
	vsAssert(back.MsgType() == m.MsgType(), "type-preserved")
	vsAssert(back.ID() == m.ID(), "task-id-preserved")
	switch a := m.(type) {
	case *RequestQualities:
		b := back.(*RequestQualities)
		vsAssert(b.Challenge == a.Challenge && b.ParentSlot == a.ParentSlot && b.Height == a.Height, "request-qualities-fields-preserved")
		vsAssert(b.ParentTarget.Cmp(a.ParentTarget) == 0, "request-qualities-target-preserved")
	case *ReportQualities:
		b := back.(*ReportQualities)
		vsAssert(len(b.Qualities) == len(a.Qualities), "report-qualities-count-preserved")
		for i := range a.Qualities {
			x, y := a.Qualities[i], b.Qualities[i]
			vsAssert(x.SpaceID == y.SpaceID && *x.PublicKey == *y.PublicKey && *x.PoolPublicKey == *y.PoolPublicKey && x.Index == y.Index && x.KSize == y.KSize &&
				bytes.Equal(x.Quality, y.Quality) && x.PlotID == y.PlotID && x.Slot == y.Slot, "quality-fields-preserved")
		}
	case *RequestProof:
		b := back.(*RequestProof)
		vsAssert(b.Height == a.Height && b.SpaceID == a.SpaceID && b.Challenge == a.Challenge && b.Index == a.Index, "request-proof-fields-preserved")
	case *ReportProof:
		b := back.(*ReportProof)
		vsAssert(b.Proof.SpaceID == a.Proof.SpaceID && b.Proof.Proof.Challenge == a.Proof.Proof.Challenge && *b.Proof.Proof.PoolPublicKey == *a.Proof.Proof.PoolPublicKey &&
			*b.Proof.Proof.PlotPublicKey == *a.Proof.Proof.PlotPublicKey && b.Proof.Proof.KSize == a.Proof.Proof.KSize && bytes.Equal(b.Proof.Proof.Proof, a.Proof.Proof.Proof) &&
			*b.Proof.PublicKey == *a.Proof.PublicKey, "report-proof-fields-preserved")
	case *RequestSignature:
		b := back.(*RequestSignature)
		vsAssert(b.Height == a.Height && b.SpaceID == a.SpaceID && b.Hash == a.Hash, "request-signature-fields-preserved")
	case *ReportSignature:
		b := back.(*ReportSignature)
		vsAssert(b.SpaceID == a.SpaceID && b.Hash == a.Hash && *b.Signature == *a.Signature, "report-signature-fields-preserved")
	}
	vsReach("roundtrip")
}
