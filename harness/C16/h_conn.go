//go:build verif

package connection

import (
	"errors"
)

var vsReads int
var vsAllocated int

// network reads by contract: the first read delivers an arbitrary 4-byte frame header, the second the frame body
// (whatever size the receiver allocated), then the connection fails
func vsReadNetConn(conn *Conn, data []byte) error {
	vsReads++
	switch vsReads {
	case 1:
		copy(data, vsNondetBytes(4, "header"))
		return nil
	case 2:
		vsAllocated = len(data)
		return nil
	}
	return errors.New("eof")
}

// VsH_FrameSize: for every 4-byte frame header the receive loop allocates at most maxRecvMsgSize bytes (the engine also
// reports any allocation beyond the stated bound), and larger frames end the loop without allocating.
func VsH_FrameSize() {
	vsReads, vsAllocated = 0, -1
	opts := defaultOptions()
	opts.maxRecvMsgSize = uint32(vsBound("recvlimit"))
	conn := &Conn{opts: opts, recvCh: make(chan []byte, 2), prioritySendCh: make(chan []byte, 2), alivenessCh: make(chan struct{}, 2)}
	conn.wg.Add(1)
	conn.receiveRoutine()
	if vsAllocated >= 0 {
		vsAssert(vsAllocated <= vsBound("recvlimit"), "frame-buffer-within-receive-limit")
		vsReach("frame-accepted")
	} else {
		vsReach("frame-rejected-or-control")
	}
	// size prefix round trip
	n := vsNondetU32("n")
	var b [4]byte
	msgSizeToBytes(n, b[:])
	vsAssert(bytesToMsgSize(b[:]) == n, "frame-size-prefix-roundtrip")
}
