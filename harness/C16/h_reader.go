//go:build verif

package fractal

import (
	"context"

	"massnet.org/mass/fractal/connection"
)

// contract of Conn.Read: an arbitrary frame of 0..4 bytes from the peer (longer frames are the codec harnesses' subject)
func vsConnRead(c *connection.Conn, ctx context.Context) ([]byte, error) {
	return vsNondetBytesUpTo(4, "frame"), nil
}

// VsH_ReaderTotal: the receiver's read step on an arbitrary short frame - shorter than a type prefix, of an unknown or
// reserved type, or with a body that does not parse - returns an error or a message and never panics (the processing
// goroutine has no recover: a panic here ends the process).
func VsH_ReaderTotal() {
	r := &MessageReceiver{ctx: context.Background(), conn: &connection.Conn{}}
	msg, err := r.readRemoteMessage(r.ctx)
	vsAssert(err != nil || msg != nil, "read-step-returns-a-message-or-an-error")
	vsReach("reader-end")
}
