//go:build verif

package protocol

import (
	"errors"

	"github.com/google/uuid"
	"github.com/massnetorg/mass-core/poc/chiapos"
)

// ---- stubs ------------------------------------------------------------------------------------

var vsRoundTripMode bool
var vsShape int // 0: short strings (≤4 bytes, arbitrary); 1: strings of the exact lengths the fixed-size fields need

func vsStr(name string, exact int) string {
	if vsShape == 1 && exact > 0 {
		return vsNondetString(exact, name)
	}
	return vsNondetStringUpTo(4, name)
}

// contract of uuid.Parse: an error or arbitrary 16 bytes
func vsUUIDParse(s string) (uuid.UUID, error) {
	var u uuid.UUID
	if vsRoundTripMode { // inverse of vsUUIDString (bijective stand-in for the textual form)
		if len(s) != 16 {
			return u, errors.New("invalid UUID length")
		}
		copy(u[:], s)
		return u, nil
	}
	if vsNondetBool("uuid_err") {
		return u, errors.New("invalid UUID")
	}
	copy(u[:], vsNondetBytes(16, "uuid"))
	return u, nil
}

// contract of chiapos.NewG1ElementFromBytes / NewG2ElementFromBytes (cgo BLS validation): wrong length or an
// invalid point ⇒ error; otherwise the bytes are copied.
func vsNewG1(b []byte) (*chiapos.G1Element, error) {
	if len(b) != 48 || (!vsRoundTripMode && vsNondetBool("g1_invalid")) {
		return nil, errors.New("invalid G1")
	}
	var g chiapos.G1Element
	copy(g[:], b)
	return &g, nil
}

func vsNewG2(b []byte) (*chiapos.G2Element, error) {
	if len(b) != 96 || (!vsRoundTripMode && vsNondetBool("g2_invalid")) {
		return nil, errors.New("invalid G2")
	}
	var g chiapos.G2Element
	copy(g[:], b)
	return &g, nil
}

func vsMsgQuality() *MsgQuality {
	if vsNondetBool("quality_null") {
		return nil
	}
	return &MsgQuality{
		SpaceID: vsStr("q.space", 0), PublicKey: vsStr("q.pk", 96), PoolPublicKey: vsStr("q.ppk", 96),
		Index: vsNondetU32("q.index"), KSize: vsNondetU8("q.k"), Quality: vsStr("q.quality", 0), PlotID: vsStr("q.plot", 64), Slot: vsNondetU64("q.slot"),
	}
}

// contract of json.Unmarshal into one of the six Msg structs: an error, or ANY value of the struct type
// (strings arbitrary, pointers nil or not, slices of 0..2 elements with nil-able elements). This over-approximates
// what a peer can make json.Unmarshal produce, which is sound for "never panics".
func vsJSONUnmarshal(data []byte, v interface{}) error {
	if vsRoundTripMode {
		return vsJSONCopyBack(v)
	}
	if vsNondetBool("json_err") {
		return errors.New("json")
	}
	switch m := v.(type) {
	case *MsgRequestQualities:
		*m = MsgRequestQualities{TaskID: vsStr("tid", 0), Challenge: vsStr("challenge", 64), ParentTarget: vsStr("target", 0), ParentSlot: vsNondetU64("pslot"), Height: vsNondetU64("height")}
	case *MsgReportQualities:
		m.TaskID = vsStr("tid", 0)
		n := vsFork(3, "nqualities")
		if n > 0 || vsNondetBool("qualities_empty_not_nil") {
			m.Qualities = []*MsgQuality{}
		}
		for i := 0; i < n; i++ {
			m.Qualities = append(m.Qualities, vsMsgQuality())
		}
	case *MsgRequestProof:
		*m = MsgRequestProof{TaskID: vsStr("tid", 0), Height: vsNondetU64("height"), SpaceID: vsStr("space", 0), Challenge: vsStr("challenge", 64), Index: vsNondetU32("index")}
	case *MsgReportProof:
		m.TaskID = vsStr("tid", 0)
		if !vsNondetBool("proof_null") {
			m.Proof = &MsgProof{SpaceID: vsStr("p.space", 0), Challenge: vsStr("p.challenge", 64), PoolPublicKey: vsStr("p.ppk", 96), PlotPublicKey: vsStr("p.pk", 96), KSize: vsNondetU8("p.k"), Proof: vsStr("p.proof", 0)}
		}
	case *MsgRequestSignature:
		*m = MsgRequestSignature{TaskID: vsStr("tid", 0), Height: vsNondetU64("height"), SpaceID: vsStr("space", 0), Hash: vsStr("hash", 64)}
	case *MsgReportSignature:
		*m = MsgReportSignature{TaskID: vsStr("tid", 0), SpaceID: vsStr("space", 0), Hash: vsStr("hash", 64), Signature: vsStr("sig", 192)}
	default:
		vsAssert(false, "json-stub-unknown-target-type")
	}
	return nil
}

// VsH_DecodeTotal: DecodeMessage on an arbitrary frame returns (msg, nil) or (_, err); no panic condition is
// reachable (checked by the engine for every implicit and explicit panic site on the path).
func VsH_DecodeTotal() {
	vsShape = vsFork(vsBound("shapes"), "shape")
	n := vsFork(4, "framelen") // 0, 1, 2, 3+ bytes
	var data []byte
	if n < 3 {
		data = vsNondetBytes(n, "frame")
	} else {
		data = vsNondetBytes(6, "frame")
	}
	if len(data) >= 2 {
		typ := vsFork(8, "type") // the six defined types, reserved 0, and 7 (arbitrary prefixes: VsH_TypePrefix)
		data[0], data[1] = 0, byte(typ)
	}
	msg, err := DecodeMessage(data)
	if err == nil {
		vsAssert(msg != nil, "nil-error-implies-message")
		vsAssert(len(data) >= 2 && data[0] == 0 && data[1] >= 1 && data[1] <= 6, "message-only-for-defined-type")
		vsAssert(uint16(msg.MsgType()) == uint16(data[0])<<8|uint16(data[1]), "decoded-type-matches-prefix")
		vsReach("decoded")
	} else {
		vsReach("rejected")
	}
}

// VsH_TypePrefix: for every 2-byte prefix, a message is produced only for the six defined types and has that type.
func VsH_TypePrefix() {
	data := vsNondetBytes(4, "frame")
	msg, err := DecodeMessage(data)
	defined := data[0] == 0 && data[1] >= 1 && data[1] <= 6
	if !defined {
		vsAssert(err != nil && msg == nil, "undefined-prefix-rejected")
		vsReach("undefined")
	} else {
		vsAssert(msg != nil, "defined-prefix-yields-message-object")
		vsAssert(uint16(msg.MsgType()) == uint16(data[0])<<8|uint16(data[1]), "type-matches-prefix")
		vsReach("defined")
	}
	// msgTypeToBytes / msgTypeFromBytes are inverse
	t := MsgType(vsNondetU16("t"))
	back, e2 := msgTypeFromBytes(msgTypeToBytes(t))
	vsAssert(e2 == nil && back == t, "type-prefix-roundtrip")
}
