//go:build verif

package hdkeychain

import (
	"bytes"
	"math/big"
)

// base58 and the 4-byte double-SHA256 checksum by contract: an injective text encoding (bijective stand-in) and an
// uninterpreted hash
func vsBase58Encode(b []byte) string { return string(b) }
func vsBase58Decode(s string) []byte { return []byte(s) }
func vsDoubleHashB(b []byte) []byte  { return vsUFBytes("dsha256", 32, b) }

// VsH_TextRoundTrip: NewKeyFromString(k.String()) for private keys stored with 32/31/30 bytes and for public keys:
// same version, depth, fingerprint, child number, chain code, same key value and kind.
func VsH_TextRoundTrip() {
	n := vsS256().N
	cc := vsNondetBytes(32, "chaincode")
	depth := vsNondetU8("depth")
	fp := vsNondetBytes(4, "fp")
	ver := vsNondetBytes(4, "version")
	idx := vsNondetU32("childnum")
	var k *ExtendedKey
	var kval *big.Int
	kind := vsFork(4, "kind")
	if kind < 3 {
		ell := 32 - kind
		key := vsNondetBytes(ell, "key")
		if ell < 32 {
			vsAssume(key[0] != 0)
		}
		kval = new(big.Int).SetBytes(key)
		vsAssume(kval.Sign() != 0 && kval.Cmp(n) < 0)
		k = NewExtendedKey(ver, key, cc, fp, depth, idx, true)
	} else {
		sc := vsNondetBytes(32, "scalar")
		kval = new(big.Int).SetBytes(sc)
		vsAssume(kval.Sign() != 0 && kval.Cmp(n) < 0)
		k = NewExtendedKey(ver, vsSerP(kval), cc, fp, depth, idx, false)
	}
	s := k.String()
	back, err := NewKeyFromString(s)
	vsAssert(err == nil && back != nil, "parse-of-own-text-succeeds")
	if err != nil || back == nil {
		return
	}
	vsAssert(bytes.Equal(back.version, ver) && back.depth == depth && bytes.Equal(back.parentFP, fp) && back.childNum == idx && bytes.Equal(back.chainCode, cc), "text-roundtrip-preserves-metadata")
	vsAssert(back.isPrivate == k.isPrivate, "text-roundtrip-preserves-kind")
	if k.isPrivate {
		vsAssert(new(big.Int).SetBytes(back.key).Cmp(kval) == 0, "text-roundtrip-preserves-private-key-value")
		vsAssert(len(back.key) == 32, "parsed-private-key-is-32-bytes")
	} else {
		vsAssert(bytes.Equal(back.key, k.key), "text-roundtrip-preserves-public-key")
	}
	vsReach("text-roundtrip")
}
