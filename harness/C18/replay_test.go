package hdkeychain

// Native replay of C18 counterexamples: real HMAC-SHA512 and real secp256k1, compared with BIP32 computed here with a
// correctly padded key.

import (
	"bytes"
	"crypto/hmac"
	"crypto/sha512"
	"encoding/binary"
	"encoding/json"
	"fmt"
	"math/big"
	"os"
	"strconv"
	"strings"
	"testing"

	"github.com/massnetorg/mass-core/pocec"
)

type vsModel struct {
	Harness    string            `json:"harness"`
	Obligation string            `json:"obligation"`
	Case       string            `json:"case"`
	Model      map[string]string `json:"model"`
}

func (m *vsModel) u(name string) uint64 {
	x, _ := strconv.ParseUint(strings.TrimPrefix(m.Model[name], "0x"), 16, 64)
	return x
}

func (m *vsModel) bytes(name string) []byte {
	var out []byte
	for i := 0; ; i++ {
		if _, ok := m.Model[fmt.Sprintf("%s[%d]", name, i)]; !ok {
			return out
		}
		out = append(out, byte(m.u(fmt.Sprintf("%s[%d]", name, i))))
	}
}

func TestVsReplayC18(t *testing.T) {
	raw, err := os.ReadFile(os.Getenv("VS_MODEL"))
	if err != nil {
		t.Fatal(err)
	}
	var m vsModel
	json.Unmarshal(raw, &m)
	key, cc := m.bytes("key"), m.bytes("chaincode")
	idx := uint32(m.u("index"))
	depth := uint8(m.u("depth"))
	switch {
	case m.Harness == "child_private":
		parent := NewExtendedKey([]byte{1, 2, 3, 4}, append([]byte{}, key...), cc, []byte{9, 9, 9, 9}, depth, 7, true)
		if _, ok := m.Model["earlier-index"]; ok {
			// the counterexample derives another (normal) child from the same key object first
			parent.Child(uint32(m.u("earlier-index")) & (HardenedKeyStart - 1))
		}
		child, cerr := parent.Child(idx)
		// BIP32 reference
		n := pocec.S256().N
		k := new(big.Int).SetBytes(key)
		data := make([]byte, 37)
		if idx >= HardenedKeyStart {
			k.FillBytes(data[1:33])
		} else {
			x, y := pocec.S256().ScalarBaseMult(key)
			pk := pocec.PublicKey{Curve: pocec.S256(), X: x, Y: y}
			copy(data, pk.SerializeCompressed())
		}
		binary.BigEndian.PutUint32(data[33:], idx)
		h := hmac.New(sha512.New, cc)
		h.Write(data)
		I := h.Sum(nil)
		il := new(big.Int).SetBytes(I[:32])
		if il.Cmp(n) >= 0 || il.Sign() == 0 {
			fmt.Println("VSREPLAY-NOT-REPRODUCED: reference derivation invalid for this index (probability 2^-127)")
			return
		}
		want := new(big.Int).Add(il, k)
		want.Mod(want, n)
		fmt.Printf("parent key (%d bytes) %x index %#x\n", len(key), key, idx)
		if cerr != nil {
			fmt.Println("VSREPLAY-CONFIRMED: Child returned", cerr, "where BIP32 derives a key")
			return
		}
		got := new(big.Int).SetBytes(child.key)
		fmt.Printf("BIP32 child %x\nreal  child %x\n", want.Bytes(), got.Bytes())
		if got.Cmp(want) != 0 || !bytes.Equal(child.chainCode, I[32:]) {
			fmt.Println("VSREPLAY-CONFIRMED: derived child differs from BIP32")
		} else {
			fmt.Println("VSREPLAY-NOT-REPRODUCED: derived child equals BIP32")
		}
	case m.Harness == "text_roundtrip":
		k := NewExtendedKey([]byte{0x04, 0x88, 0xad, 0xe4}, append([]byte{}, key...), cc, []byte{1, 2, 3, 4}, depth, uint32(m.u("childnum")), true)
		if len(key) == 0 {
			fmt.Println("VSREPLAY-NO-SCENARIO: public-key case has no native driver")
			return
		}
		txt := k.String()
		back, err := NewKeyFromString(txt)
		fmt.Printf("private key (%d bytes) %x -> %q\n", len(key), key, txt)
		if err != nil {
			fmt.Println("VSREPLAY-CONFIRMED: NewKeyFromString(k.String()) fails:", err)
			return
		}
		if new(big.Int).SetBytes(back.key).Cmp(new(big.Int).SetBytes(key)) != 0 || !bytes.Equal(back.chainCode, cc) || back.depth != depth {
			fmt.Println("VSREPLAY-CONFIRMED: text round trip changed the key")
			return
		}
		fmt.Println("VSREPLAY-NOT-REPRODUCED: text round trip preserved the key")
	case m.Harness == "child_public":
		// the model's HMAC values cannot be forced natively: search real indices for a witness of the same obligation
		seed := bytes.Repeat([]byte{0x42}, 32)
		h := hmac.New(sha512.New, []byte("Bitcoin seed"))
		h.Write(seed)
		lr := h.Sum(nil)
		master := NewExtendedKey([]byte{0x04, 0x88, 0xad, 0xe4}, lr[:32], lr[32:], []byte{0, 0, 0, 0}, 0, 0, true)
		pub, err := master.Neuter()
		if err != nil {
			// version bytes unknown to Neuter: build the public parent directly
			x, y := pocec.S256().ScalarBaseMult(lr[:32])
			pk := pocec.PublicKey{Curve: pocec.S256(), X: x, Y: y}
			pub = NewExtendedKey([]byte{0x04, 0x88, 0xb2, 0x1e}, pk.SerializeCompressed(), lr[32:], []byte{0, 0, 0, 0}, 0, 0, false)
		}
		for i := uint32(0); i < 6000; i++ {
			cp, e1 := master.Child(i)
			cq, e2 := pub.Child(i)
			if (e1 == nil) != (e2 == nil) {
				fmt.Printf("VSREPLAY-CONFIRMED: index %d: private derivation err=%v, public derivation err=%v\n", i, e1, e2)
				return
			}
			if e1 != nil {
				continue
			}
			if !bytes.Equal(cp.pubKeyBytes(), cq.key) || !bytes.Equal(cp.chainCode, cq.chainCode) {
				fmt.Printf("VSREPLAY-CONFIRMED: index %d: Neuter(CKDpriv) = %x but CKDpub = %x\n", i, cp.pubKeyBytes(), cq.key)
				return
			}
		}
		fmt.Println("VSREPLAY-NOT-REPRODUCED: 6000 indices derived consistently from the public and the private parent")
	default:
		fmt.Println("VSREPLAY-NO-SCENARIO: no native oracle for harness", m.Harness)
	}
}
