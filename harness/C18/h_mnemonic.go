//go:build verif

package keystore

import "math/big"

// SHA-256 of the entropy by contract: an arbitrary function (only its first byte matters here)
func vsChecksumHash(data []byte) []byte { return vsUFBytes("sha256", 32, data) }

// VsH_MnemonicChecksum: BIP39 appends the first ENT/32 bits of SHA-256(entropy), most significant bit first, to the
// entropy: for entropy of 16, 20, 24, 28 and 32 arbitrary bytes, addChecksum(entropy) = entropy * 2^cs + (hash[0] >> (8-cs)).
func VsH_MnemonicChecksum() {
	n := 16 + 4*vsFork(5, "entropyWords")
	data := vsNondetBytes(n, "entropy")
	vsAssume(data[0] != 0) // Bytes() of the result drops leading zero bytes; compared as numbers below anyway
	cs := uint(n / 4)
	got := new(big.Int).SetBytes(addChecksum(append([]byte{}, data...)))
	h0 := vsChecksumHash(data)[0]
	want := new(big.Int).SetBytes(data)
	want.Lsh(want, cs)
	want.Or(want, big.NewInt(int64(h0>>(8-cs))))
	vsAssert(got.Cmp(want) == 0, "checksum-bits-are-the-leading-bits-of-the-hash-msb-first")
	// the 11-bit groups cover entropy and checksum exactly: (8n + cs) is a multiple of 11
	vsAssert((uint(8*n)+cs)%11 == 0, "entropy-plus-checksum-splits-into-whole-words")
	vsReach("mnemonic-checksum-end")
}
