package main

// Symbolic values, heap and merging.

import (
	"fmt"
	"go/types"
	"math"
	"sync"

	"golang.org/x/tools/go/ssa"
)

type Value interface{}

// FloatV is a concrete float, or (C != nil) a choice between two float values: floats are supported only as
// finite trees of concrete values selected by boolean terms (no float arithmetic reaches the solver).
type FloatV struct {
	F    float64
	C    *Term
	A, B *FloatV
	Opq  bool // opaque: derived from a symbolic integer; may only flow into logging/formatting, never into a branch
}

var opaqueFloat = &FloatV{Opq: true}

// fmap2 applies op to every pair of leaves.
func fmap2(x, y *FloatV, op func(a, b float64) Value) Value {
	if x.Opq || y.Opq {
		if _, isF := op(1, 1).(*FloatV); isF {
			return opaqueFloat
		}
		panic(unsupported("comparison of a float derived from a symbolic integer"))
	}
	if x.C != nil {
		return mergeValue(x.C, fmap2(x.A, y, op), fmap2(x.B, y, op))
	}
	if y.C != nil {
		return mergeValue(y.C, fmap2(x, y.A, op), fmap2(x, y.B, op))
	}
	return op(x.F, y.F)
}

func fmap1(x *FloatV, op func(a float64) Value) Value {
	if x.Opq {
		if _, isF := op(1).(*FloatV); isF {
			return opaqueFloat
		}
		panic(unsupported("conversion of a float derived from a symbolic integer"))
	}
	if x.C != nil {
		return mergeValue(x.C, fmap1(x.A, op), fmap1(x.B, op))
	}
	return op(x.F)
}

// Agg is an immutable aggregate: struct, array or tuple.
type Agg struct{ E []Value }

type PathEl struct {
	Field int
	Idx   *Term // non-nil: array index (64-bit)
}

// PtrC is a concrete-shaped pointer (also used for map and chan references). Obj==0 is nil.
type PtrC struct {
	Obj  int
	Path []PathEl
}

// IfaceC is an interface value with a known dynamic type (Typ==nil: nil interface).
type IfaceC struct {
	Typ types.Type
	V   Value
}

// FuncC is a function value (Fn==nil && Intr=="" : nil func).
type FuncC struct {
	Fn   *ssa.Function
	Bind []Value
	// bound method closure of an interface method or builtin
	Builtin *ssa.Builtin
}

type Alt struct {
	G *Term
	V Value
}

// Choice is a guarded set of reference-shaped values; guards are mutually exclusive and exhaustive under the path condition.
type Choice struct{ Alts []Alt }

// SliceV is a slice or string: a window [Off, Off+Len) on an array object.
type SliceV struct {
	Base          Value // *PtrC or *Choice of *PtrC pointing to an array (Agg)
	Off, Len, Cap *Term // 64-bit
}

// MapVal is the heap value of a map object: an association list, later entries shadow earlier ones.
type MapVal struct {
	Entries []MapEntry
	KeyT    types.Type
	ValT    types.Type
}

// MapEntry is one update: if G holds the key K was set (Present) or deleted (!Present) with value V.
type MapEntry struct {
	G, Present *Term
	K, V       Value
}

// KeyStr is a string used as a map key, materialised by content.
type KeyStr struct {
	B   []*Term
	Len *Term
}

// ChanVal is the heap value of a channel object.
type ChanVal struct {
	Buf    []Value
	Len    *Term // 64-bit number of queued elements (queue is Buf[0:Len], FIFO, shifted on receive)
	Cap    int
	Closed *Term
	ElemT  types.Type
}

// RangeIter is the value of an ssa.Range over a map or string; the position lives in heap object PosObj.
type RangeIter struct {
	Keys   []Value
	Pres   []*Term
	Vals   []Value
	Str    *SliceV
	PosObj int
	// merged iterator (two arms created different iterators): Next runs on the alternative whose guard holds
	AltG  []*Term
	AltIt []*RangeIter
}

var nilPtr = &PtrC{}

func i64(v int64) *Term { return BV(64, uint64(v)) }

func intWidth(t types.Type) (w int, signed bool, ok bool) {
	b, isB := t.Underlying().(*types.Basic)
	if !isB {
		return 0, false, false
	}
	switch b.Kind() {
	case types.Int8:
		return 8, true, true
	case types.Int16:
		return 16, true, true
	case types.Int32, types.UntypedRune:
		return 32, true, true
	case types.Int64, types.Int, types.UntypedInt:
		return 64, true, true
	case types.Uint8:
		return 8, false, true
	case types.Uint16:
		return 16, false, true
	case types.Uint32:
		return 32, false, true
	case types.Uint64, types.Uint, types.Uintptr:
		return 64, false, true
	}
	return 0, false, false
}

func isFloat(t types.Type) bool {
	b, ok := t.Underlying().(*types.Basic)
	return ok && (b.Info()&types.IsFloat) != 0
}

func isString(t types.Type) bool {
	b, ok := t.Underlying().(*types.Basic)
	return ok && (b.Info()&types.IsString) != 0
}

func isBoolT(t types.Type) bool {
	b, ok := t.Underlying().(*types.Basic)
	return ok && (b.Info()&types.IsBoolean) != 0
}

var zeroCache sync.Map

func zeroValue(t types.Type) Value {
	if v, ok := zeroCache.Load(t); ok {
		return v
	}
	v := zeroValue0(t)
	zeroCache.Store(t, v)
	return v
}

func zeroValue0(t types.Type) Value {
	switch u := t.Underlying().(type) {
	case *types.Basic:
		if w, _, ok := intWidth(u); ok {
			return BV(w, 0)
		}
		switch {
		case u.Info()&types.IsBoolean != 0:
			return False
		case u.Info()&types.IsString != 0:
			return &SliceV{Base: nilPtr, Off: i64(0), Len: i64(0), Cap: i64(0)}
		case u.Info()&types.IsFloat != 0:
			return &FloatV{F: 0}
		case u.Kind() == types.UnsafePointer:
			return nilPtr
		case u.Kind() == types.UntypedNil:
			return nilPtr
		}
		panic(unsupported("zero value of basic type " + t.String()))
	case *types.Pointer, *types.Map, *types.Chan:
		return nilPtr
	case *types.Signature:
		return &FuncC{}
	case *types.Interface:
		return &IfaceC{}
	case *types.Slice:
		return &SliceV{Base: nilPtr, Off: i64(0), Len: i64(0), Cap: i64(0)}
	case *types.Struct:
		a := &Agg{E: make([]Value, u.NumFields())}
		for i := range a.E {
			a.E[i] = zeroValue(u.Field(i).Type())
		}
		return a
	case *types.Array:
		a := &Agg{E: make([]Value, u.Len())}
		z := zeroValue(u.Elem())
		for i := range a.E {
			a.E[i] = z
		}
		return a
	case *types.Tuple:
		a := &Agg{E: make([]Value, u.Len())}
		for i := range a.E {
			a.E[i] = zeroValue(u.At(i).Type())
		}
		return a
	}
	panic(unsupported("zero value of " + t.String()))
}

type unsupportedErr struct{ msg string }

func (u unsupportedErr) Error() string { return "unsupported: " + u.msg }
func unsupported(msg string) error    { return unsupportedErr{msg} }

// ---------------------------------------------------------------- heap

type Heap struct {
	m      map[int]Value
	parent *Heap
}

func (h *Heap) get(id int) (Value, bool) {
	for x := h; x != nil; x = x.parent {
		if v, ok := x.m[id]; ok {
			return v, true
		}
	}
	return nil, false
}

func (h *Heap) set(id int, v Value) { h.m[id] = v }

func newHeap(parent *Heap) *Heap { return &Heap{m: map[int]Value{}, parent: parent} }

// ---------------------------------------------------------------- merging

func flatten(g *Term, v Value, out []Alt) []Alt {
	if c, ok := v.(*Choice); ok {
		for _, a := range c.Alts {
			out = flatten(And(g, a.G), a.V, out)
		}
		return out
	}
	return append(out, Alt{g, v})
}

func samePathShape(a, b []PathEl) bool {
	if len(a) != len(b) {
		return false
	}
	for i := range a {
		if (a[i].Idx == nil) != (b[i].Idx == nil) {
			return false
		}
		if a[i].Idx == nil && a[i].Field != b[i].Field {
			return false
		}
	}
	return true
}

// combineAlt tries to fuse alternative b into a (guards exclusive). Returns fused value or nil.
func combineAlt(a, b Alt) Value {
	switch x := a.V.(type) {
	case *PtrC:
		y, ok := b.V.(*PtrC)
		if !ok || x.Obj != y.Obj || !samePathShape(x.Path, y.Path) {
			return nil
		}
		if x.Obj == 0 {
			return x
		}
		p := &PtrC{Obj: x.Obj, Path: make([]PathEl, len(x.Path))}
		for i := range x.Path {
			p.Path[i] = x.Path[i]
			if x.Path[i].Idx != nil {
				p.Path[i].Idx = Ite(a.G, x.Path[i].Idx, y.Path[i].Idx)
			}
		}
		return p
	case *IfaceC:
		y, ok := b.V.(*IfaceC)
		if !ok {
			return nil
		}
		if x.Typ == nil && y.Typ == nil {
			return x
		}
		if x.Typ == nil || y.Typ == nil || !types.Identical(x.Typ, y.Typ) {
			return nil
		}
		return &IfaceC{Typ: x.Typ, V: mergeValue(a.G, x.V, y.V)}
	case *FuncC:
		y, ok := b.V.(*FuncC)
		if !ok || x.Fn != y.Fn || x.Builtin != y.Builtin || len(x.Bind) != len(y.Bind) {
			return nil
		}
		if len(x.Bind) == 0 {
			return x
		}
		f := &FuncC{Fn: x.Fn, Builtin: x.Builtin, Bind: make([]Value, len(x.Bind))}
		for i := range x.Bind {
			f.Bind[i] = mergeValue(a.G, x.Bind[i], y.Bind[i])
		}
		return f
	}
	return nil
}

func mkChoice(alts []Alt) Value {
	// fuse compatible alternatives, drop false guards
	var out []Alt
	for _, a := range alts {
		if a.G.IsFalse() {
			continue
		}
		fused := false
		for i := range out {
			if v := combineAlt(out[i], a); v != nil {
				out[i] = Alt{Or(out[i].G, a.G), v}
				fused = true
				break
			}
		}
		if !fused {
			out = append(out, a)
		}
	}
	if len(out) == 0 {
		if len(alts) > 0 {
			return alts[0].V
		}
		panic("empty choice")
	}
	if len(out) == 1 {
		return out[0].V
	}
	return &Choice{Alts: out}
}

func isRef(v Value) bool {
	switch v.(type) {
	case *PtrC, *IfaceC, *FuncC, *Choice:
		return true
	}
	return false
}

// mergeValue returns the value that equals a when c holds and b otherwise.
func mergeValue(c *Term, a, b Value) Value {
	if c.IsTrue() {
		return a
	}
	if c.IsFalse() {
		return b
	}
	if a == b {
		return a
	}
	if a == nil {
		return b
	}
	if b == nil {
		return a
	}
	switch x := a.(type) {
	case *Term:
		y, ok := b.(*Term)
		if !ok {
			panic(fmt.Sprintf("merge: term vs %T", b))
		}
		return Ite(c, x, y)
	case *FloatV:
		y := b.(*FloatV)
		if x.Opq || y.Opq {
			return opaqueFloat
		}
		if x.C == nil && y.C == nil && (x.F == y.F || (math.IsNaN(x.F) && math.IsNaN(y.F))) {
			return x
		}
		return &FloatV{C: c, A: x, B: y}
	case *Agg:
		y := b.(*Agg)
		if len(x.E) != len(y.E) {
			panic("merge: aggregate size mismatch")
		}
		r := &Agg{E: make([]Value, len(x.E))}
		same := true
		for i := range x.E {
			r.E[i] = mergeValue(c, x.E[i], y.E[i])
			if r.E[i] != x.E[i] {
				same = false
			}
		}
		if same {
			return x
		}
		return r
	case *SliceV:
		y := b.(*SliceV)
		return &SliceV{Base: mergeValue(c, x.Base, y.Base), Off: Ite(c, x.Off, y.Off), Len: Ite(c, x.Len, y.Len), Cap: Ite(c, x.Cap, y.Cap)}
	case *MapVal:
		y := b.(*MapVal)
		return mergeMap(c, x, y)
	case *ChanVal:
		y := b.(*ChanVal)
		if x.Cap != y.Cap {
			panic("merge: chan cap mismatch")
		}
		r := &ChanVal{Cap: x.Cap, ElemT: x.ElemT, Len: Ite(c, x.Len, y.Len), Closed: Ite(c, x.Closed, y.Closed), Buf: make([]Value, len(x.Buf))}
		for i := range x.Buf {
			r.Buf[i] = mergeValue(c, x.Buf[i], y.Buf[i])
		}
		return r
	case *RangeIter:
		y := b.(*RangeIter)
		if x == y {
			return x
		}
		return &RangeIter{AltG: []*Term{c, Not(c)}, AltIt: []*RangeIter{x, y}}
	}
	if isRef(a) && isRef(b) {
		alts := flatten(c, a, nil)
		alts = flatten(Not(c), b, alts)
		return mkChoice(alts)
	}
	panic(fmt.Sprintf("merge: unsupported kinds %T %T", a, b))
}

// mergeMap merges two association lists sharing a common prefix.
func mergeMap(c *Term, x, y *MapVal) *MapVal {
	if x == y {
		return x
	}
	n := 0
	for n < len(x.Entries) && n < len(y.Entries) && x.Entries[n] == y.Entries[n] {
		n++
	}
	r := &MapVal{KeyT: x.KeyT, ValT: x.ValT}
	r.Entries = append(r.Entries, x.Entries[:n]...)
	for _, e := range x.Entries[n:] {
		e.G = And(c, e.G)
		r.Entries = append(r.Entries, e)
	}
	nc := Not(c)
	for _, e := range y.Entries[n:] {
		e.G = And(nc, e.G)
		r.Entries = append(r.Entries, e)
	}
	return r
}
