package main

// Memory operations: pointers, slices, strings, maps.

import (
	"fmt"
	"go/types"
)

func alts(v Value) []Alt {
	if c, ok := v.(*Choice); ok {
		return c.Alts
	}
	return []Alt{{True, v}}
}

// nilCond returns the condition under which the reference is nil.
func nilCond(v Value) *Term {
	c := False
	for _, a := range alts(v) {
		switch x := a.V.(type) {
		case *PtrC:
			if x.Obj == 0 {
				c = Or(c, a.G)
			}
		case *IfaceC:
			if x.Typ == nil {
				c = Or(c, a.G)
			}
		case *FuncC:
			if x.Fn == nil && x.Builtin == nil {
				c = Or(c, a.G)
			}
		default:
			panic(fmt.Sprintf("nilCond of %T", a.V))
		}
	}
	return c
}

// errEmptyIndex: an element of a zero-length array was addressed (only possible on a path whose bounds check
// already failed); loads with a statically known type substitute the zero value.
var errEmptyIndex = unsupportedErr{"index into empty array"}

func loadPath(v Value, path []PathEl) Value {
	for pi, el := range path {
		agg, ok := v.(*Agg)
		if !ok {
			panic(fmt.Sprintf("loadPath: not an aggregate: %T", v))
		}
		if el.Idx == nil {
			v = agg.E[el.Field]
			continue
		}
		if el.Idx.IsConst() {
			i := el.Idx.ConstU()
			if i >= uint64(len(agg.E)) {
				// out of range under an infeasible guard: return zero-ish value
				if len(agg.E) == 0 {
					panic(errEmptyIndex)
				}
				i = 0
			}
			v = agg.E[i]
			continue
		}
		n := len(agg.E)
		if n == 0 {
			panic(errEmptyIndex)
		}
		rest := path[pi+1:]
		r := loadPath(agg.E[n-1], rest)
		for i := n - 2; i >= 0; i-- {
			r = mergeValue(Eq(el.Idx, BV(64, uint64(i))), loadPath(agg.E[i], rest), r)
		}
		return r
	}
	return v
}

func storePath(v Value, path []PathEl, nv Value, g *Term) Value {
	if g.IsFalse() {
		return v
	}
	if len(path) == 0 {
		return mergeValue(g, nv, v)
	}
	agg, ok := v.(*Agg)
	if !ok {
		panic(fmt.Sprintf("storePath: not an aggregate: %T", v))
	}
	el := path[0]
	r := &Agg{E: make([]Value, len(agg.E))}
	copy(r.E, agg.E)
	switch {
	case el.Idx == nil:
		r.E[el.Field] = storePath(agg.E[el.Field], path[1:], nv, g)
	case el.Idx.IsConst():
		i := el.Idx.ConstU()
		if i >= uint64(len(agg.E)) {
			return v
		}
		r.E[i] = storePath(agg.E[i], path[1:], nv, g)
	default:
		for i := range agg.E {
			r.E[i] = storePath(agg.E[i], path[1:], nv, And(g, Eq(el.Idx, BV(64, uint64(i)))))
		}
	}
	return r
}

// liveAlts drops the alternatives whose guard is refuted by the literal facts of the path condition.
func liveAlts(st *State, p Value) []Alt {
	as := alts(p)
	if len(as) < 2 || len(st.pcs) == 0 {
		return as
	}
	out := as[:0:0]
	for _, a := range as {
		if st.known(a.G) == 0 {
			continue
		}
		out = append(out, a)
	}
	if len(out) == 0 {
		return as
	}
	return out
}

func (ex *Exec) load(st *State, p Value) Value {
	as := liveAlts(st, p)
	var r Value
	first := true
	sawEmpty := false
	for i := len(as) - 1; i >= 0; i-- {
		a := as[i]
		pc := a.V.(*PtrC)
		if pc.Obj == 0 {
			continue
		}
		ov, ok := st.heap.get(pc.Obj)
		if !ok {
			continue
		}
		v, okv := tryLoadPath(ov, pc.Path)
		if !okv {
			sawEmpty = true
			continue // element of a zero-length array: this alternative's bounds check already failed
		}
		if first {
			r = v
			first = false
		} else {
			r = mergeValue(a.G, v, r)
		}
	}
	if first {
		if sawEmpty {
			panic(errEmptyIndex)
		}
		panic(unsupported("load through nil-only pointer"))
	}
	return r
}

func (ex *Exec) store(st *State, p Value, v Value) {
	for _, a := range liveAlts(st, p) {
		pc := a.V.(*PtrC)
		if pc.Obj == 0 {
			continue
		}
		ov, ok := st.heap.get(pc.Obj)
		if !ok {
			continue
		}
		st.heap.set(pc.Obj, storePath(ov, pc.Path, v, a.G))
	}
}

// extendPath returns p with an extra path element appended (per alternative).
func extendPath(p Value, el PathEl) Value {
	switch x := p.(type) {
	case *PtrC:
		if x.Obj == 0 {
			return x
		}
		np := make([]PathEl, len(x.Path)+1)
		copy(np, x.Path)
		np[len(x.Path)] = el
		return &PtrC{Obj: x.Obj, Path: np}
	case *Choice:
		c := &Choice{Alts: make([]Alt, len(x.Alts))}
		for i, a := range x.Alts {
			c.Alts[i] = Alt{a.G, extendPath(a.V, el)}
		}
		return c
	}
	panic(fmt.Sprintf("extendPath of %T", p))
}

// ---------------------------------------------------------------- arrays and slices

func (ex *Exec) newArray(st *State, elems []Value) *PtrC {
	return &PtrC{Obj: ex.newObj(st, &Agg{E: elems})}
}

// arrLen returns the (maximal) length of the array a slice base points to.
func (ex *Exec) arrLen(st *State, base Value) int {
	m := 0
	for _, a := range liveAlts(st, base) {
		pc := a.V.(*PtrC)
		if pc.Obj == 0 {
			continue
		}
		ov, ok := st.heap.get(pc.Obj)
		if !ok {
			continue
		}
		// navigate with index 0 for symbolic indices
		v := ov
		for _, el := range pc.Path {
			agg := v.(*Agg)
			if el.Idx == nil {
				v = agg.E[el.Field]
			} else if len(agg.E) > 0 {
				v = agg.E[0]
			}
		}
		if agg, ok := v.(*Agg); ok && len(agg.E) > m {
			m = len(agg.E)
		}
	}
	return m
}

// maxLen returns a concrete upper bound on the slice length.
func (ex *Exec) maxLen(st *State, s *SliceV) int {
	if s.Len.IsConst() {
		return int(s.Len.ConstU())
	}
	n := ex.arrLen(st, s.Base)
	if s.Off.IsConst() {
		n -= int(s.Off.ConstU())
	}
	if n < 0 {
		n = 0
	}
	return n
}

func (ex *Exec) elemPtr(s *SliceV, i *Term) Value {
	return extendPath(s.Base, PathEl{Idx: Add(s.Off, i)})
}

func (ex *Exec) sliceGet(st *State, s *SliceV, i *Term) Value {
	return ex.load(st, ex.elemPtr(s, i))
}

func (ex *Exec) sliceSet(st *State, s *SliceV, i *Term, v Value) {
	ex.store(st, ex.elemPtr(s, i), v)
}

func (ex *Exec) mkSliceFromElems(st *State, elems []Value) *SliceV {
	n := i64(int64(len(elems)))
	return &SliceV{Base: ex.newArray(st, elems), Off: i64(0), Len: n, Cap: n}
}

func (ex *Exec) strConst(s string) *SliceV {
	if v, ok := ex.strConsts[s]; ok {
		return v
	}
	elems := make([]Value, len(s))
	for i := 0; i < len(s); i++ {
		elems[i] = BV(8, uint64(s[i]))
	}
	var v *SliceV
	if len(s) == 0 {
		v = &SliceV{Base: nilPtr, Off: i64(0), Len: i64(0), Cap: i64(0)}
	} else {
		id := ex.newRootObj(&Agg{E: elems})
		n := i64(int64(len(s)))
		v = &SliceV{Base: &PtrC{Obj: id}, Off: i64(0), Len: n, Cap: n}
	}
	ex.strConsts[s] = v
	return v
}

// elems materialises the first maxLen elements of a slice/string.
func (ex *Exec) elems(st *State, s *SliceV) []Value {
	n := ex.maxLen(st, s)
	out := make([]Value, n)
	if n == 0 {
		return out
	}
	// fast path: single concrete base, constant offset
	if pc, ok := s.Base.(*PtrC); ok && s.Off.IsConst() {
		if ov, ok := st.heap.get(pc.Obj); ok {
			if arr, ok := loadPath(ov, pc.Path).(*Agg); ok {
				off := int(s.Off.ConstU())
				for i := 0; i < n && off+i < len(arr.E); i++ {
					out[i] = arr.E[off+i]
				}
				return out
			}
		}
	}
	for i := 0; i < n; i++ {
		out[i] = ex.sliceGet(st, s, i64(int64(i)))
	}
	return out
}

func (ex *Exec) byteTerms(st *State, s *SliceV) []*Term {
	es := ex.elems(st, s)
	out := make([]*Term, len(es))
	for i, e := range es {
		out[i] = e.(*Term)
	}
	return out
}

// concreteString returns the Go string if length and all bytes are concrete.
func (ex *Exec) concreteString(st *State, s *SliceV) (string, bool) {
	if !s.Len.IsConst() {
		return "", false
	}
	bs := ex.byteTerms(st, s)
	b := make([]byte, len(bs))
	for i, t := range bs {
		if !t.IsConst() {
			return "", false
		}
		b[i] = byte(t.ConstU())
	}
	return string(b), true
}

func (ex *Exec) strEq(st *State, a, b *SliceV) *Term {
	if a.Len.IsConst() && b.Len.IsConst() && a.Len != b.Len {
		return False
	}
	ea, eb := ex.byteTerms(st, a), ex.byteTerms(st, b)
	n := len(ea)
	if len(eb) < n {
		n = len(eb)
	}
	r := Eq(a.Len, b.Len)
	symLen := !a.Len.IsConst() || !b.Len.IsConst()
	for i := 0; i < n; i++ {
		e := Eq(ea[i], eb[i])
		if symLen {
			e = Or(Ule(a.Len, i64(int64(i))), e)
		}
		r = And(r, e)
		if r.IsFalse() {
			return r
		}
	}
	// lengths beyond n: impossible for the shorter one
	if symLen {
		r = And(r, Ule(a.Len, i64(int64(n))))
	}
	return r
}

// strLess returns a < b lexicographically.
func (ex *Exec) strLess(st *State, a, b *SliceV) *Term {
	ea, eb := ex.byteTerms(st, a), ex.byteTerms(st, b)
	n := len(ea)
	if len(eb) > n {
		n = len(eb)
	}
	// f(i): result given equal prefixes of length i
	r := Ult(a.Len, b.Len) // at i = n: both exhausted or compare lengths
	for i := n - 1; i >= 0; i-- {
		ii := i64(int64(i))
		aEnd := Ule(a.Len, ii)
		bEnd := Ule(b.Len, ii)
		var inner *Term
		if i < len(ea) && i < len(eb) {
			inner = Ite(Ult(ea[i], eb[i]), True, Ite(Ult(eb[i], ea[i]), False, r))
		} else {
			inner = False // one is necessarily exhausted; handled by aEnd/bEnd
		}
		r = Ite(aEnd, Not(bEnd), Ite(bEnd, False, inner))
	}
	return r
}

func (ex *Exec) strConcat(st *State, a, b *SliceV) *SliceV {
	if a.Len.IsConst() && a.Len.ConstU() == 0 {
		return b
	}
	if b.Len.IsConst() && b.Len.ConstU() == 0 {
		return a
	}
	ea, eb := ex.elems(st, a), ex.elems(st, b)
	if a.Len.IsConst() {
		out := append(append([]Value{}, ea...), eb...)
		arr := ex.newArray(st, out)
		l := Add(a.Len, b.Len)
		return &SliceV{Base: arr, Off: i64(0), Len: l, Cap: l}
	}
	// symbolic split point
	n := len(ea) + len(eb)
	out := make([]Value, n)
	for j := 0; j < n; j++ {
		jj := i64(int64(j))
		var v Value = BV(8, 0)
		// from b: index j - len(a)
		for k := len(eb) - 1; k >= 0; k-- {
			v = mergeValue(Eq(Sub(jj, a.Len), i64(int64(k))), eb[k], v)
		}
		if j < len(ea) {
			v = mergeValue(Ult(jj, a.Len), ea[j], v)
		}
		out[j] = v
	}
	arr := ex.newArray(st, out)
	l := Add(a.Len, b.Len)
	return &SliceV{Base: arr, Off: i64(0), Len: l, Cap: l}
}

// copySlice implements copy(dst, src) and returns the number of elements copied.
func (ex *Exec) copySlice(st *State, dst, src *SliceV) *Term {
	n := Ite(Ult(dst.Len, src.Len), dst.Len, src.Len)
	se := ex.elems(st, src)
	md := ex.maxLen(st, dst)
	m := len(se)
	if md < m {
		m = md
	}
	if n.IsConst() {
		m = int(n.ConstU())
		for i := 0; i < m; i++ {
			ex.sliceSet(st, dst, i64(int64(i)), se[i])
		}
		return n
	}
	for i := 0; i < m; i++ {
		ii := i64(int64(i))
		old := ex.sliceGet(st, dst, ii)
		ex.sliceSet(st, dst, ii, mergeValue(Ult(ii, n), se[i], old))
	}
	return n
}

// appendSlice implements append(s, elems of t...).
func (ex *Exec) appendSlice(st *State, s, t *SliceV, elemT types.Type) *SliceV {
	if t.Len.IsConst() && t.Len.ConstU() == 0 {
		return s
	}
	te := ex.elems(st, t)
	if s.Len.IsConst() && t.Len.IsConst() && s.Cap.IsConst() {
		sl, tl, sc := int(s.Len.ConstU()), int(t.Len.ConstU()), int(s.Cap.ConstU())
		if sl+tl <= sc {
			// in place
			r := &SliceV{Base: s.Base, Off: s.Off, Len: i64(int64(sl + tl)), Cap: s.Cap}
			for i := 0; i < tl; i++ {
				ex.sliceSet(st, r, i64(int64(sl+i)), te[i])
			}
			return r
		}
		se := ex.elems(st, s)
		nc := sl + tl
		if nc < 2*sc {
			nc = 2 * sc
		}
		out := make([]Value, nc)
		copy(out, se)
		copy(out[sl:], te[:tl])
		z := zeroValue(elemT)
		for i := sl + tl; i < nc; i++ {
			out[i] = z
		}
		return &SliceV{Base: ex.newArray(st, out), Off: i64(0), Len: i64(int64(sl + tl)), Cap: i64(int64(nc))}
	}
	// symbolic lengths: always allocate (assumption A3: no aliasing through spare capacity)
	se := ex.elems(st, s)
	n := len(se) + len(te)
	out := make([]Value, n)
	z := zeroValue(elemT)
	for j := 0; j < n; j++ {
		jj := i64(int64(j))
		v := z
		for k := len(te) - 1; k >= 0; k-- {
			c := And(Eq(Sub(jj, s.Len), i64(int64(k))), Ult(i64(int64(k)), t.Len))
			v = mergeValue(c, te[k], v)
		}
		if j < len(se) {
			v = mergeValue(Ult(jj, s.Len), se[j], v)
		}
		out[j] = v
	}
	l := Add(s.Len, t.Len)
	return &SliceV{Base: ex.newArray(st, out), Off: i64(0), Len: l, Cap: i64(int64(n))}
}

// ---------------------------------------------------------------- maps

func (ex *Exec) mapKey(st *State, k Value) Value {
	switch x := k.(type) {
	case *SliceV:
		return &KeyStr{B: ex.byteTerms(st, x), Len: x.Len}
	case *Agg:
		r := &Agg{E: make([]Value, len(x.E))}
		for i, e := range x.E {
			r.E[i] = ex.mapKey(st, e)
		}
		return r
	case *IfaceC:
		if x.Typ == nil {
			return x
		}
		return &IfaceC{Typ: x.Typ, V: ex.mapKey(st, x.V)}
	}
	return k
}

func (ex *Exec) keyToValue(st *State, k Value) Value {
	switch x := k.(type) {
	case *KeyStr:
		if len(x.B) == 0 {
			return &SliceV{Base: nilPtr, Off: i64(0), Len: i64(0), Cap: i64(0)}
		}
		es := make([]Value, len(x.B))
		for i, b := range x.B {
			es[i] = b
		}
		return &SliceV{Base: ex.newArray(st, es), Off: i64(0), Len: x.Len, Cap: x.Len}
	case *Agg:
		r := &Agg{E: make([]Value, len(x.E))}
		for i, e := range x.E {
			r.E[i] = ex.keyToValue(st, e)
		}
		return r
	case *IfaceC:
		if x.Typ == nil {
			return x
		}
		return &IfaceC{Typ: x.Typ, V: ex.keyToValue(st, x.V)}
	}
	return k
}

// valueEq computes structural equality of two (map-key-normalised or plain comparable) values.
func (ex *Exec) valueEq(st *State, a, b Value) *Term {
	switch x := a.(type) {
	case *Term:
		return Eq(x, b.(*Term))
	case *FloatV:
		return fmap2(x, b.(*FloatV), func(p, q float64) Value { return Bool(p == q) }).(*Term)
	case *KeyStr:
		y := b.(*KeyStr)
		if x.Len.IsConst() && y.Len.IsConst() && x.Len != y.Len {
			return False
		}
		n := len(x.B)
		if len(y.B) < n {
			n = len(y.B)
		}
		r := Eq(x.Len, y.Len)
		sym := !x.Len.IsConst() || !y.Len.IsConst()
		for i := 0; i < n; i++ {
			e := Eq(x.B[i], y.B[i])
			if sym {
				e = Or(Ule(x.Len, i64(int64(i))), e)
			}
			r = And(r, e)
			if r.IsFalse() {
				return r
			}
		}
		if sym {
			r = And(r, Ule(x.Len, i64(int64(n))))
		}
		return r
	case *SliceV:
		return ex.strEq(st, x, b.(*SliceV))
	case *Agg:
		y := b.(*Agg)
		r := True
		for i := range x.E {
			r = And(r, ex.valueEq(st, x.E[i], y.E[i]))
			if r.IsFalse() {
				return r
			}
		}
		return r
	}
	if isRef(a) && isRef(b) {
		r := False
		for _, aa := range alts(a) {
			for _, bb := range alts(b) {
				g := And(aa.G, bb.G)
				if g.IsFalse() {
					continue
				}
				r = Or(r, And(g, ex.refEq(st, aa.V, bb.V)))
			}
		}
		return r
	}
	panic(fmt.Sprintf("valueEq: %T vs %T", a, b))
}

func (ex *Exec) refEq(st *State, a, b Value) *Term {
	switch x := a.(type) {
	case *PtrC:
		y, ok := b.(*PtrC)
		if !ok {
			return False
		}
		if x.Obj != y.Obj {
			return False
		}
		if x.Obj == 0 {
			return True
		}
		if !samePathShape(x.Path, y.Path) {
			return False
		}
		r := True
		for i := range x.Path {
			if x.Path[i].Idx != nil {
				r = And(r, Eq(x.Path[i].Idx, y.Path[i].Idx))
			}
		}
		return r
	case *IfaceC:
		y, ok := b.(*IfaceC)
		if !ok {
			return False
		}
		if x.Typ == nil || y.Typ == nil {
			return Bool(x.Typ == nil && y.Typ == nil)
		}
		if !types.Identical(x.Typ, y.Typ) {
			return False
		}
		return ex.valueEq(st, x.V, y.V)
	case *FuncC:
		y, ok := b.(*FuncC)
		if !ok {
			return False
		}
		return Bool(x.Fn == nil && x.Builtin == nil && y.Fn == nil && y.Builtin == nil)
	}
	panic(fmt.Sprintf("refEq: %T vs %T", a, b))
}

// mapLookup returns (value, present).
func (ex *Exec) mapLookup(st *State, m *MapVal, key Value) (Value, *Term) {
	k := ex.mapKey(st, key)
	var v Value = zeroValue(m.ValT)
	present := False
	for _, e := range m.Entries { // earliest to latest: later entries override
		hit := And(e.G, ex.valueEq(st, e.K, k))
		if hit.IsFalse() {
			continue
		}
		ev := e.V
		if ev == nil {
			ev = zeroValue(m.ValT)
		}
		v = mergeValue(And(hit, e.Present), ev, mergeValue(hit, zeroValue(m.ValT), v))
		present = Ite(hit, e.Present, present)
	}
	return v, present
}

func (ex *Exec) mapUpdate(st *State, m *MapVal, key, val Value, present *Term) *MapVal {
	k := ex.mapKey(st, key)
	r := &MapVal{KeyT: m.KeyT, ValT: m.ValT}
	for _, e := range m.Entries {
		// drop entries certainly shadowed by this unconditional update
		if ex.valueEq(st, e.K, k).IsTrue() {
			continue
		}
		r.Entries = append(r.Entries, e)
	}
	if present.IsFalse() && len(r.Entries) == len(m.Entries)-0 {
		// deleting: if no other entry can alias, nothing to record
		mayAlias := false
		for _, e := range r.Entries {
			if !ex.valueEq(st, e.K, k).IsFalse() {
				mayAlias = true
			}
		}
		if !mayAlias {
			return r
		}
	}
	r.Entries = append(r.Entries, MapEntry{G: True, Present: present, K: k, V: val})
	return r
}

// mapSnapshot lists the possibly-present distinct keys with presence and values (insertion order).
func (ex *Exec) mapSnapshot(st *State, m *MapVal) (keys []Value, pres []*Term, vals []Value) {
	for i, e := range m.Entries {
		dup := false
		for j := 0; j < i; j++ {
			if ex.valueEq(st, m.Entries[j].K, e.K).IsTrue() {
				dup = true
				break
			}
		}
		if dup {
			continue
		}
		// a key that may alias an earlier, different-looking key is visited only when it differs from all of them (the
		// earlier entry is then the representative; its lookup already yields the latest value stored under that key)
		notDup := True
		for j := 0; j < i; j++ {
			eq := ex.valueEq(st, m.Entries[j].K, e.K)
			if !eq.IsFalse() && !eq.IsTrue() {
				notDup = And(notDup, Not(eq))
			}
		}
		v, p := ex.mapLookup(st, m, ex.keyToValue(st, e.K))
		p = And(p, notDup)
		if p.IsFalse() {
			continue
		}
		keys = append(keys, e.K)
		pres = append(pres, p)
		vals = append(vals, v)
	}
	return
}

func (ex *Exec) mapLen(st *State, m *MapVal) *Term {
	_, pres, _ := ex.mapSnapshot(st, m)
	n := i64(0)
	for _, p := range pres {
		n = Add(n, Ite(p, i64(1), i64(0)))
	}
	return n
}

func tryLoadPath(v Value, path []PathEl) (r Value, ok bool) {
	defer func() {
		if e := recover(); e != nil {
			if e == errEmptyIndex {
				r, ok = nil, false
				return
			}
			panic(e)
		}
	}()
	return loadPath(v, path), true
}
