package main

// vcheck: loads /repo with overlay harnesses, symbolically executes each harness, discharges the
// obligations with z3 and writes evidence. See /verif/DESIGN.md.

import (
	"encoding/json"
	"flag"
	"fmt"
	"go/types"
	"math/big"
	"os"
	"os/exec"
	"path/filepath"
	"regexp"
	"runtime"
	"runtime/debug"
	"sort"
	"strconv"
	"strings"
	"sync"
	"sync/atomic"
	"time"

	"golang.org/x/tools/go/packages"
	"golang.org/x/tools/go/ssa"
	"golang.org/x/tools/go/ssa/ssautil"
)

type TierInt map[string]int

type HarnessCfg struct {
	Name        string            `json:"name"`
	Func        string            `json:"func"`
	Unit        int               `json:"unit"`
	Unwind      TierInt           `json:"unwind"`
	Bounds      map[string]TierInt `json:"bounds"`
	CheckPanics bool              `json:"check_panics"`
	CheckBlocks bool              `json:"check_blocks"`
	TimeoutS    TierInt           `json:"timeout_s"`
	Tiers       []string          `json:"tiers"`
	OneShot bool `json:"oneshot"`
	NoFeas      bool              `json:"no_feasibility"`
	FeasAlways  bool              `json:"feas_always"` // decide every symbolic branch with the solver (text-processing harnesses: control flow is determined by assumed digit ranges)
	Replay      *ReplayCfg        `json:"replay"`
	Note        string            `json:"note"`
	PanicIgnore []string          `json:"panic_ignore"`
	LockRules   []LockRule        `json:"lock_rules"`
	AllocBoundViolation bool      `json:"alloc_bound_violation"` // an allocation whose size can exceed bound maxmake is a violation (memory exhaustion), not a mere bound event
	AssertFilter string           `json:"assert_filter"` // regexp: only assertion ids matching it are obligations of this harness
	HarnessDir  string            `json:"harness_dir"`
}

// LockRule: every access to one of Fields of the tracked object Object must hold (one of) Locks.
type LockRule struct {
	Object string   `json:"object"`
	Fields []string `json:"fields"`
	Locks  []string `json:"locks"`
	Common bool     `json:"common"` // additionally: all accesses to the field (over all cases) must share one mutex
}

type fieldAccess struct {
	held, fn, pos, cas string
}

type ReplayCfg struct {
	Pkg  string `json:"pkg"`  // directory under /repo, e.g. ./fractal/protocol
	File string `json:"file"` // file in harness dir (a _test.go), injected by go test -overlay
	Test string `json:"test"`
	Tags string `json:"tags"`
	Race bool   `json:"race"` // run under the race detector; a DATA RACE report confirms
	Extra []struct {
		Pkg  string `json:"pkg"`
		File string `json:"file"`
	} `json:"extra"` // further files overlaid into other packages (helpers the driver needs)
	Scale []struct {
		File string `json:"file"` // source file of the current tree, relative to /repo
		From string `json:"from"`
		To   string `json:"to"`
	} `json:"scale"` // constants scaled for the native run exactly as in the model (textual substitution, must match once)
}

type UnitCfg struct {
	Package   string            `json:"package"`
	Dir       string            `json:"dir"`
	Files     []string          `json:"files"`
	Overrides map[string]string `json:"overrides"`
	Init      []string          `json:"init"`
}

type PropCfg struct {
	Property    string       `json:"property"`
	Units       []UnitCfg    `json:"units"`
	Harnesses   []HarnessCfg `json:"harnesses"`
	Assumptions []string     `json:"assumptions"`
	Trusted     []string     `json:"trusted_base"`
	Rule        string       `json:"rule"`
}

type KnownFinding struct {
	Status      string `json:"status"` // known | fixed
	Property    string `json:"property"`
	Signature   string `json:"signature"`
	Description string `json:"description"`
	Commit      string `json:"commit,omitempty"`
}

type Violation struct {
	Signature string
	Harness   string
	ID        string
	Case      string
	Pos       string
	Kind      string
	Model     map[string]string
	ReplayPath string
	Replayed  string // confirmed | not-reproduced | no-driver | error
	ReplayOut string
	Known     bool
	KnownDesc string
}

type HarnessResult struct {
	Name        string
	Cases       int
	Asserts     int
	Discharged  int
	Reaches     int
	ReachSat    int
	Unwinds     int
	PanicsSeen  int
	PanicsChecked int
	Blocks      int
	Violations  []*Violation
	Inconclusive []string
	Funcs       map[string]int
	Bounds      map[string]int
	Unwind      int
	Wall        float64
	Samples     []interface{}
	Spawns      []string
	distinctIDs map[string]bool
	reachIDs    map[string]bool
	fieldAcc    map[string][]fieldAccess
}

var (
	verifDir = "/verif"
	repoDir  = "/repo"
)

func main() {
	prop := flag.String("p", "", "property id")
	tier := flag.String("tier", "quick", "quick|thorough")
	only := flag.String("h", "", "only this harness")
	workers := flag.Int("j", 0, "parallel workers")
	verbose := flag.Bool("v", false, "verbose")
	replay := flag.String("replay", "", "replay a counterexample file")
	dumpSMT := flag.String("dump", "", "directory to dump SMT queries")
	selftest := flag.Bool("selftest", false, "run translator validation")
	flag.Parse()
	if v := os.Getenv("VERIF_DIR"); v != "" {
		verifDir = v
	}
	if v := os.Getenv("VERIF_REPO"); v != "" {
		repoDir = v
	}
	if v := os.Getenv("VERIF_TIER"); v != "" && *tier == "quick" {
		*tier = v
	}
	if *workers == 0 {
		*workers = runtime.NumCPU()
		if *workers > 16 {
			*workers = 16
		}
	}
	debug.SetMaxStack(2 << 30)
	debug.SetGCPercent(800)
	if *replay != "" {
		os.Exit(doReplay(*prop, *replay))
	}
	_ = selftest
	if *prop == "" {
		fmt.Fprintln(os.Stderr, "usage: vcheck -p Cxx [-tier quick|thorough]")
		os.Exit(2)
	}
	os.Exit(runProperty(*prop, *tier, *only, *workers, *verbose, *dumpSMT))
}

func loadCfg(prop string) (*PropCfg, string) {
	dir := filepath.Join(verifDir, "harness", prop)
	b, err := os.ReadFile(filepath.Join(dir, "harness.json"))
	if err != nil {
		fmt.Fprintln(os.Stderr, "cannot read harness config:", err)
		os.Exit(2)
	}
	var cfg PropCfg
	if err := json.Unmarshal(b, &cfg); err != nil {
		fmt.Fprintln(os.Stderr, "bad harness.json:", err)
		os.Exit(2)
	}
	return &cfg, dir
}

var pkgClause = regexp.MustCompile(`(?m)^package\s+(\w+)`)

const vsPrelude = `//go:build verif

package %s

func vsNondetU8(site string) uint8
func vsNondetU16(site string) uint16
func vsNondetU32(site string) uint32
func vsNondetU64(site string) uint64
func vsNondetInt(site string) int
func vsNondetI64(site string) int64
func vsNondetI32(site string) int32
func vsNondetBool(site string) bool
func vsNondetBytes(n int, site string) []byte
func vsNondetBytesUpTo(n int, site string) []byte
func vsNondetString(n int, site string) string
func vsNondetStringUpTo(n int, site string) string
func vsAssume(c bool)
func vsAssert(c bool, id string)
func vsReach(id string)
func vsFork(n int, label string) int
func vsBound(name string) int
func vsObserve(name string, v uint64)
func vsObserveBytes(name string, v []byte)
func vsUFU64(name string, args ...uint64) uint64
func vsUFBytes(name string, outLen int, args ...[]byte) []byte
func vsUFBytesInj(name string, outLen int, args ...[]byte) []byte
func vsLockHeld(p interface{}) bool
func vsAnyLockHeld() bool
func vsRunUntilBlocked(f func()) bool
func vsSetLockHook(f func(lock string))
func vsTrack(p interface{}, name string)
func vsProvablyEqual(a, b []byte) bool
func vsSpawned() int
func vsRunSpawned(k int) bool
func vsProvablyDifferent(a, b []byte) bool
`

func loadProgram(cfg *PropCfg, hdir string) (*ssa.Program, []*ssa.Package, map[string]*ssa.Package) {
	overlay := map[string][]byte{}
	var patterns []string
	for _, u := range cfg.Units {
		pdir := u.Dir
		if pdir == "" {
			pdir = strings.TrimPrefix(strings.TrimPrefix(u.Package, "massnet.org/mass"), "/")
		}
		abs := filepath.Join(repoDir, pdir)
		if filepath.IsAbs(pdir) {
			abs = pdir
		}
		pkgName := ""
		for _, f := range u.Files {
			src, err := os.ReadFile(filepath.Join(hdir, f))
			if err != nil {
				fmt.Fprintln(os.Stderr, "harness file:", err)
				os.Exit(2)
			}
			if m := pkgClause.FindSubmatch(src); m != nil {
				pkgName = string(m[1])
			}
			overlay[filepath.Join(abs, "zz_verif_"+filepath.Base(f))] = src
		}
		overlay[filepath.Join(abs, "zz_verif_vs.go")] = []byte(fmt.Sprintf(vsPrelude, pkgName))
		patterns = append(patterns, u.Package)
	}
	pcfg := &packages.Config{
		Mode:       packages.LoadAllSyntax,
		Dir:        repoDir,
		BuildFlags: []string{"-tags=verif"},
		Overlay:    overlay,
		Env:        append(os.Environ(), "GOFLAGS=-mod=mod", "GOPROXY=off", "GOSUMDB=off", "GOTOOLCHAIN=local", "CGO_ENABLED=1", "GODEBUG=goindex=0"),
	}
	pkgs, err := packages.Load(pcfg, patterns...)
	if err != nil {
		fmt.Fprintln(os.Stderr, "load:", err)
		os.Exit(2)
	}
	bad := false
	packages.Visit(pkgs, nil, func(p *packages.Package) {
		for _, e := range p.Errors {
			// errors in the target packages (the harness no longer compiles against the tree) are fatal
			for _, t := range pkgs {
				if t == p {
					fmt.Fprintln(os.Stderr, "package error:", e)
					bad = true
				}
			}
		}
	})
	if bad {
		fmt.Fprintln(os.Stderr, "HARNESS-COMPILE-ERROR: harness does not type-check against the current tree")
		os.Exit(2)
	}
	if os.Getenv("VS_DEBUG_LOAD") != "" {
		packages.Visit(pkgs, nil, func(p *packages.Package) {
			if strings.Contains(p.PkgPath, "concurrent-map") {
				fmt.Fprintln(os.Stderr, "pkg", p.PkgPath, p.GoFiles, p.CompiledGoFiles, p.Errors)
			}
		})
	}
	prog, spkgs := ssautil.AllPackages(pkgs, ssa.InstantiateGenerics)
	prog.Build()
	byPath := map[string]*ssa.Package{}
	for _, p := range prog.AllPackages() {
		byPath[p.Pkg.Path()] = p
	}
	return prog, spkgs, byPath
}

// findFunc resolves "pkgpath.Name", "(*pkgpath.T).M" or "(pkgpath.T).M".
func findFunc(prog *ssa.Program, byPath map[string]*ssa.Package, name string) *ssa.Function {
	if strings.HasPrefix(name, "(") {
		end := strings.Index(name, ").")
		recv := name[1:end]
		meth := name[end+2:]
		ptr := strings.HasPrefix(recv, "*")
		recv = strings.TrimPrefix(recv, "*")
		i := strings.LastIndex(recv, ".")
		p := byPath[recv[:i]]
		if p == nil {
			return nil
		}
		t := p.Type(recv[i+1:])
		if t == nil {
			return nil
		}
		var typ = t.Type()
		if ptr {
			typ = typesPointer(typ)
		}
		ms := prog.MethodSets.MethodSet(typ)
		for i := 0; i < ms.Len(); i++ {
			if ms.At(i).Obj().Name() == meth {
				return prog.MethodValue(ms.At(i))
			}
		}
		return nil
	}
	i := strings.LastIndex(name, ".")
	p := byPath[name[:i]]
	if p == nil {
		return nil
	}
	return p.Func(name[i+1:])
}

func typesPointer(t types.Type) types.Type { return types.NewPointer(t) }

var foldedObligations int64 // obligations decided by the term simplifier alone (negated obligation folded to false)
var totalSteps int64
var replaysRun int64

type caseJob struct {
	h      *HarnessCfg
	prefix []int
}

type runner struct {
	prog    *ssa.Program
	byPath  map[string]*ssa.Package
	cfg     *PropCfg
	hdir    string
	tier    string
	verbose bool
	dump    string
	known   []KnownFinding

	mu      sync.Mutex
	results map[string]*HarnessResult
	pending sync.WaitGroup
	jobs    chan caseJob
	cexSeq  int64
}

func tierVal(m TierInt, tier string, def int) int {
	if m == nil {
		return def
	}
	if v, ok := m[tier]; ok {
		return v
	}
	if v, ok := m["quick"]; ok {
		return v
	}
	return def
}

func runProperty(prop, tier, only string, workers int, verbose bool, dump string) int {
	t0 := time.Now()
	cfg, hdir := loadCfg(prop)
	prog, _, byPath := loadProgram(cfg, hdir)
	loadT := time.Since(t0)
	if verbose {
		fmt.Fprintf(os.Stderr, "loaded in %.1fs\n", loadT.Seconds())
	}
	r := &runner{prog: prog, byPath: byPath, cfg: cfg, hdir: hdir, tier: tier, verbose: verbose, dump: dump, results: map[string]*HarnessResult{}}
	r.known = loadKnown(prop)
	r.jobs = make(chan caseJob, 100000)
	var hs []*HarnessCfg
	for i := range cfg.Harnesses {
		h := &cfg.Harnesses[i]
		if only != "" && h.Name != only {
			continue
		}
		if len(h.Tiers) > 0 {
			ok := false
			for _, t := range h.Tiers {
				if t == tier {
					ok = true
				}
			}
			if !ok {
				continue
			}
		}
		hs = append(hs, h)
		r.results[h.Name] = &HarnessResult{Name: h.Name, Funcs: map[string]int{}, distinctIDs: map[string]bool{}}
	}
	for _, h := range hs {
		r.pending.Add(1)
		r.jobs <- caseJob{h: h}
	}
	for i := 0; i < workers; i++ {
		go r.worker()
	}
	r.pending.Wait()
	close(r.jobs)
	if os.Getenv("VS_SLOW") != "" {
		for k, v := range feasCount {
			fmt.Fprintf(os.Stderr, "feas %5d %s\n", v, k)
		}
	}
	return r.report(prop, tier, hs, time.Since(t0).Seconds(), loadT.Seconds())
}

func (r *runner) worker() {
	var solver *Solver
	defer func() { solver.Close() }()
	n := 0
	for job := range r.jobs {
		n++
		if true { // a fresh incremental solver per case: accumulated definitional assertions slow every later query
			solver.Close()
			var err error
			solver, err = NewSolver()
			if err != nil {
				fmt.Fprintln(os.Stderr, "cannot start z3:", err)
				os.Exit(2)
			}
		}
		r.runCase(job, solver)
		r.pending.Done()
	}
}

func (r *runner) unitOf(h *HarnessCfg) *UnitCfg { return &r.cfg.Units[h.Unit] }

func (r *runner) runCase(job caseJob, solver *Solver) {
	h := job.h
	t0 := time.Now()
	res := r.results[h.Name]
	ex := NewExec(r.prog)
	ex.solver = solver
	ex.unwind = tierVal(h.Unwind, r.tier, 8)
	ex.checkFeas = !h.NoFeas
	ex.feasAlways = h.FeasAlways
	for k, v := range h.Bounds {
		ex.bounds[k] = tierVal(v, r.tier, 0)
	}
	u := r.unitOf(h)
	// the overrides of the harness's own unit apply (two units may stub the same function differently)
	for from, to := range u.Overrides {
		f := findFunc(r.prog, r.byPath, to)
		if f == nil {
			r.inconclusive(res, "override target not found: "+to)
			return
		}
		ex.overrides[from] = f
	}
	ex.forkChoices = append([]int{}, job.prefix...)
	ex.forkSizes = make([]int, len(job.prefix))
	ex.forkLabels = make([]string, len(job.prefix))
	fn := findFunc(r.prog, r.byPath, u.Package+"."+h.Func)
	if fn == nil {
		r.inconclusive(res, "harness function not found: "+h.Func)
		return
	}
	var fatal string
	func() {
		defer func() {
			if e := recover(); e != nil {
				if ue, ok := e.(unsupportedErr); ok {
					fatal = ue.Error() + " at " + ex.pos(ex.curInstr) + " [in " + strings.Join(ex.ctxTail(3), " < ") + "]"
				} else if ue, ok := e.(error); ok && strings.HasPrefix(ue.Error(), "unsupported") {
					fatal = ue.Error()
				} else {
					fatal = fmt.Sprintf("engine panic: %v [in %s]\n%s", e, strings.Join(ex.ctxTail(4), " < "), debug.Stack())
				}
			}
		}()
		st := &State{heap: newHeap(ex.root)}
		for _, ip := range u.Init {
			ex.runInit(st, r.byPath[ip])
		}
		ex.panics, ex.unwinds, ex.blocks, ex.steps = nil, nil, nil, 0
		ex.callFunction(st, fn, nil, nil, 0)
	}()
	// enqueue sibling cases discovered on this path
	for i := len(job.prefix); i < len(ex.forkChoices); i++ {
		for k := 1; k < ex.forkSizes[i]; k++ {
			p := append(append([]int{}, ex.forkChoices[:i]...), k)
			r.pending.Add(1)
			r.jobs <- caseJob{h: h, prefix: p}
		}
	}
	if fatal != "" {
		r.inconclusive(res, "case "+ex.curCase+": "+fatal)
		// the assertions recorded before the run stopped are complete obligations of the executed prefix: decide them
		// (a violation among them is reported even though the case as a whole stays inconclusive)
		ex.reaches, ex.unwinds, ex.panics, ex.blocks, ex.accesses = nil, nil, nil, nil, nil
		r.discharge(h, res, ex, solver)
		return
	}
	if os.Getenv("VS_TERMHIST") != "" {
		hist := map[string]int{}
		TT.mu.Lock()
		for _, t := range TT.m {
			k := opNames[t.Op]
			if k == "" {
				k = fmt.Sprintf("op%d", t.Op)
			}
			hist[fmt.Sprintf("%s/w%d", k, t.W)]++
		}
		TT.mu.Unlock()
		fmt.Fprintln(os.Stderr, "termhist", hist)
	}
	if r.verbose {
		fmt.Fprintf(os.Stderr, "[%s] case {%s} executed: steps=%d terms=%d asserts=%d %.2fs\n", h.Name, ex.curCase, ex.steps, TT.next, len(ex.asserts), time.Since(t0).Seconds())
	}
	r.discharge(h, res, ex, solver)
	atomic.AddInt64(&totalSteps, ex.steps)
	r.mu.Lock()
	res.Cases++
	res.Wall += time.Since(t0).Seconds()
	for k, v := range ex.funcs {
		res.Funcs[k] = v
	}
	res.Unwind = ex.unwind
	res.Bounds = ex.bounds
	res.Spawns = ex.spawns
	r.mu.Unlock()
	if r.verbose {
		for _, p := range ex.panics {
			fmt.Fprintf(os.Stderr, "   panic-site: %s at %s [%s] pcconst=%v\n", p.Kind, p.Pos, p.Msg, p.PC.IsConst())
		}
		for _, p := range ex.initSkipped {
			fmt.Fprintf(os.Stderr, "   init-skipped: %s\n", firstLine(p))
		}
		fmt.Fprintf(os.Stderr, "[%s] case {%s}: %d asserts, %d reaches, %d panics, %d unwinds, %d blocks, steps=%d, %.2fs\n", h.Name, ex.curCase, len(ex.asserts), len(ex.reaches), len(ex.panics), len(ex.unwinds), len(ex.blocks), ex.steps, time.Since(t0).Seconds())
	}
}

func (r *runner) inconclusive(res *HarnessResult, msg string) {
	r.mu.Lock()
	res.Inconclusive = append(res.Inconclusive, msg)
	r.mu.Unlock()
	if r.verbose {
		fmt.Fprintln(os.Stderr, "INCONCLUSIVE:", msg)
	}
}

func (ex *Exec) runInit(st *State, p *ssa.Package) {
	if p == nil || ex.initDone[p] {
		return
	}
	ex.initDone[p] = true
	init := p.Func("init")
	if init == nil {
		return
	}
	ex.initAllowed = p
	ex.inInit = true
	ex.callFunction(st, init, nil, nil, 0)
	ex.inInit = false
}

func (r *runner) discharge(h *HarnessCfg, res *HarnessResult, ex *Exec, solver *Solver) {
	timeout := tierVal(h.TimeoutS, r.tier, 60)
	valueTerms := func() []*Term {
		var vs []*Term
		for _, n := range ex.nondets {
			vs = append(vs, n.T)
		}
		for _, n := range ex.observes {
			vs = append(vs, n.T)
		}
		return vs
	}
	check := func(kind, id, pos, cas string, q *Term) {
		// q satisfiable = violation
		verdict := "unknown"
		if q.IsFalse() {
			verdict = "unsat"
			atomic.AddInt64(&foldedObligations, 1)
		} else if !h.OneShot {
			verdict = solver.CheckSat(5000, q)
		}
		var qr QueryResult
		if verdict != "unsat" {
			keep := ""
			if r.dump != "" {
				os.MkdirAll(r.dump, 0o755)
				keep = filepath.Join(r.dump, fmt.Sprintf("%s-%s-%d.smt2", h.Name, sanitize(id), atomic.AddInt64(&r.cexSeq, 1)))
			}
			if h.OneShot {
				qr = RunPortfolio(timeout, q, valueTerms(), keep)
			} else {
				qr = RunOneShot("z3", timeout, q, valueTerms(), keep)
			}
			verdict = qr.Verdict
			atomic.AddInt64(&GStats.Queries, 1)
			atomic.AddInt64(&GStats.TimeNanos, int64(qr.Seconds*1e9))
		}
		r.mu.Lock()
		defer r.mu.Unlock()
		switch verdict {
		case "unsat":
			if kind == "assert" {
				res.Discharged++
			}
		case "sat":
			v := &Violation{Harness: h.Name, ID: id, Case: cas, Pos: pos, Kind: kind, Model: map[string]string{}}
			v.Signature = h.Name + "/" + id
			memo := map[int]*big.Int{}
			for _, n := range ex.nondets {
				if val, ok := qr.Model[n.Name]; ok {
					v.Model[n.Name] = "0x" + val.Text(16)
				}
			}
			for _, n := range ex.observes {
				var val *big.Int
				if n.T.IsConst() {
					val = n.T.ConstBig()
				} else if mv, ok := qr.Model[ref(n.T)]; ok {
					val = mv
				} else if mv, ok := qr.Model[n.T.Name]; ok && n.T.Op == OpVar {
					val = mv
				} else {
					val = Eval(n.T, qr.Model, memo)
				}
				if val != nil {
					v.Model["obs:"+n.Name] = "0x" + val.Text(16)
				}
			}
			res.Violations = append(res.Violations, v)
		default:
			res.Inconclusive = append(res.Inconclusive, fmt.Sprintf("%s %s {%s}: solver verdict %s (%.1fs) %s", kind, id, cas, verdict, qr.Seconds, firstLine(qr.Raw)))
		}
	}
	var afilter *regexp.Regexp
	if h.AssertFilter != "" {
		afilter = regexp.MustCompile(h.AssertFilter)
	}
	var owg sync.WaitGroup
	for _, a := range ex.asserts {
		if afilter != nil && !afilter.MatchString(a.ID) {
			continue
		}
		r.mu.Lock()
		res.Asserts++
		res.distinctIDs[a.ID+"@"+a.Case] = true
		r.mu.Unlock()
		if h.OneShot {
			a := a
			q := And(a.PC, Not(a.Cond))
			owg.Add(1)
			go func() {
				defer owg.Done()
				oneShotSem <- struct{}{}
				defer func() { <-oneShotSem }()
				check("assert", a.ID, a.Pos, a.Case, q)
			}()
			continue
		}
		check("assert", a.ID, a.Pos, a.Case, And(a.PC, Not(a.Cond)))
	}
	owg.Wait()
	for _, a := range ex.reaches {
		v := "unknown"
		if !h.OneShot {
			v = solver.CheckSat(20000, a.PC)
		}
		if v == "unknown" {
			qr := RunOneShot("z3", timeout, a.PC, nil, "")
			v = qr.Verdict
			if v == "unknown" || v == "error" {
				qr = RunOneShot("cvc5", timeout, a.PC, nil, "")
				v = qr.Verdict
			}
			atomic.AddInt64(&GStats.Queries, 1)
		}
		r.mu.Lock()
		res.Reaches++
		if res.reachIDs == nil {
			res.reachIDs = map[string]bool{}
		}
		if v == "sat" {
			res.ReachSat++
			res.reachIDs[a.ID] = true
			if len(res.Samples) < 6 {
				res.Samples = append(res.Samples, map[string]string{"witness": a.ID, "case": a.Case, "pos": a.Pos})
			}
		} else if !res.reachIDs[a.ID] {
			res.reachIDs[a.ID] = false
			if r.verbose {
				fmt.Fprintf(os.Stderr, "   reach %s {%s}: %s\n", a.ID, a.Case, v)
			}
		}
		r.mu.Unlock()
	}
	for _, e := range ex.unwinds {
		if h.AllocBoundViolation && e.Kind == "bound" && strings.Contains(e.Msg, "make size") {
			check("alloc", "alloc:allocation-size-not-bounded-by-limit@"+shortPos(e.Pos), e.Pos, e.Case, e.PC)
			continue
		}
		var v string
		if h.OneShot {
			v = RunPortfolio(60, e.PC, nil, "").Verdict
			atomic.AddInt64(&GStats.Queries, 1)
		} else {
			v = solver.CheckSat(10000, e.PC)
		}
		r.mu.Lock()
		res.Unwinds++
		if v != "unsat" {
			res.Inconclusive = append(res.Inconclusive, fmt.Sprintf("%s limit reached at %s {%s} %s: path still feasible (%s)", e.Kind, e.Pos, e.Case, e.Msg, v))
		}
		r.mu.Unlock()
	}
	r.mu.Lock()
	res.PanicsSeen += len(ex.panics)
	res.Blocks += len(ex.blocks)
	r.mu.Unlock()
	if h.CheckPanics {
		var evs []Event
	nextPanic:
		for _, e := range ex.panics {
			for _, ig := range h.PanicIgnore {
				if strings.Contains(e.Pos, ig) || strings.Contains(e.Kind, ig) {
					continue nextPanic
				}
			}
			evs = append(evs, e)
		}
		r.mu.Lock()
		res.PanicsChecked += len(evs)
		r.mu.Unlock()
		r.batchCheck(h, res, ex, solver, "panic", evs, check, timeout)
	}
	if len(h.LockRules) > 0 {
		seen := map[string]bool{}
		for _, a := range ex.accesses {
			for _, rule := range h.LockRules {
				if rule.Object != a.Obj {
					continue
				}
				match := false
				for _, f := range rule.Fields {
					if f == a.Field {
						match = true
					}
				}
				if !match {
					continue
				}
				if rule.Common && (a.PC.IsTrue() || solver.CheckSat(5000, a.PC) == "sat") {
					r.mu.Lock()
					if res.fieldAcc == nil {
						res.fieldAcc = map[string][]fieldAccess{}
					}
					k := a.Obj + "." + a.Field
					dup := false
					for _, o := range res.fieldAcc[k] {
						if o.held == a.Held && o.fn == a.Func {
							dup = true
						}
					}
					if !dup {
						res.fieldAcc[k] = append(res.fieldAcc[k], fieldAccess{a.Held, a.Func, a.Pos, a.Case})
					}
					r.mu.Unlock()
				}
				held := false
				for _, l := range rule.Locks {
					for _, hl := range strings.Fields(a.Held) {
						if hl == l {
							held = true
						}
					}
				}
				if held {
					continue
				}
				fnShort := a.Func
				if j := strings.LastIndex(fnShort, "/"); j >= 0 {
					fnShort = fnShort[j+1:]
				}
				id := fmt.Sprintf("unlocked-access:%s.%s@%s", a.Obj, a.Field, fnShort)
				if seen[id] {
					continue
				}
				seen[id] = true
				r.mu.Lock()
				res.Asserts++
				res.distinctIDs[id+"@"+a.Case] = true
				r.mu.Unlock()
				check("assert", id, a.Pos, a.Case, a.PC)
			}
		}
		r.mu.Lock()
		res.Samples = append(res.Samples, map[string]interface{}{"accesses_logged": len(ex.accesses), "case": ex.curCase})
		r.mu.Unlock()
	}
	if h.CheckBlocks {
		// a thread that blocks while holding a lock is the violation (blocking-while-locked); parking without locks
		// (the idle plotter) is normal
		var evs []Event
		for _, e := range ex.blocks {
			if e.Msg != "" {
				evs = append(evs, e)
			}
		}
		r.batchCheck(h, res, ex, solver, "block", evs, check, timeout)
	}
}

var oneShotSem = make(chan struct{}, 6)

func eventID(kind string, e Event) string {
	if kind == "block" {
		return "block:" + e.Kind + "@" + shortPos(e.Pos) + "[held:" + e.Msg + "]"
	}
	return "panic:" + e.Kind + "@" + shortPos(e.Pos)
}

// batchCheck discharges many "must be unreachable" events with one query on their disjunction; when it is
// satisfiable the events true under the model are checked individually (and reported), the rest re-batched.
func (r *runner) batchCheck(h *HarnessCfg, res *HarnessResult, ex *Exec, solver *Solver, kind string, evs []Event, check func(kind, id, pos, cas string, q *Term), timeout int) {
	reported := map[string]bool{}
	for round := 0; round < 12 && len(evs) > 0; round++ {
		disj := False
		for _, e := range evs {
			disj = Or(disj, e.PC)
		}
		if disj.IsFalse() {
			return
		}
		var v string
		if h.OneShot {
			v = RunPortfolio(timeout, disj, nil, "").Verdict
			atomic.AddInt64(&GStats.Queries, 1)
		} else {
			v = solver.CheckSat(timeout*1000, disj)
		}
		if v == "unsat" {
			return
		}
		// find candidates: check individually, cheapest first (those true under a cached model)
		var rest []Event
		found := false
		for _, e := range evs {
			id := eventID(kind, e)
			if reported[id] {
				continue
			}
			if !found && solver.modelSat(e.PC) {
				check(kind, id, e.Pos, e.Case, e.PC)
				reported[id] = true
				found = true
				continue
			}
			rest = append(rest, e)
		}
		if !found {
			// no model available (unknown verdict or UF terms): fall back to individual checks
			for _, e := range rest {
				id := eventID(kind, e)
				if reported[id] {
					continue
				}
				reported[id] = true
				check(kind, id, e.Pos, e.Case, e.PC)
			}
			return
		}
		evs = rest
	}
}

func shortPos(p string) string {
	if i := strings.Index(p, "("); i >= 0 {
		fn := p[i+1:]
		fn = strings.TrimSuffix(fn, ")")
		if j := strings.LastIndex(fn, "/"); j >= 0 {
			fn = fn[j+1:]
		}
		file := p[:i]
		if j := strings.Index(file, ":"); j >= 0 {
			file = file[:j] // drop line number: signatures survive unrelated edits
		}
		if j := strings.LastIndex(file, "/"); j >= 0 {
			file = file[j+1:]
		}
		return file + ":" + fn
	}
	return p
}

func firstLine(s string) string {
	if i := strings.IndexByte(s, '\n'); i >= 0 {
		s = s[:i]
	}
	if len(s) > 200 {
		s = s[:200]
	}
	return s
}

func sanitize(s string) string {
	return regexp.MustCompile(`[^A-Za-z0-9_.-]+`).ReplaceAllString(s, "_")
}

func loadKnown(prop string) []KnownFinding {
	b, err := os.ReadFile(filepath.Join(verifDir, "known_findings.json"))
	if err != nil {
		return nil
	}
	var all struct {
		Findings []KnownFinding `json:"findings"`
	}
	if err := json.Unmarshal(b, &all); err != nil {
		fmt.Fprintln(os.Stderr, "bad known_findings.json:", err)
		os.Exit(2)
	}
	var out []KnownFinding
	for _, k := range all.Findings {
		if k.Property == prop && k.Status == "known" {
			out = append(out, k)
		}
	}
	return out
}

func globMatch(pat, s string) bool {
	re := "^" + strings.ReplaceAll(regexp.QuoteMeta(pat), `\*`, ".*") + "$"
	ok, _ := regexp.MatchString(re, s)
	return ok
}

func (r *runner) report(prop, tier string, hs []*HarnessCfg, wall, loadS float64) int {
	exit := 0
	cexDir := filepath.Join(verifDir, "evidence", "cex", prop)
	os.RemoveAll(cexDir)
	var samples []interface{}
	totalAsserts, totalDischarged, distinct, totalCases, reachSat := 0, 0, 0, 0, 0
	var inconcl []string
	funcs := map[string]int{}
	var harnessSummaries []map[string]interface{}
	nViol := 0
	var knownLines, violLines []string
	for _, h := range hs {
		res := r.results[h.Name]
		totalAsserts += res.Asserts
		totalDischarged += res.Discharged
		totalCases += res.Cases
		reachSat += res.ReachSat
		distinct += len(res.distinctIDs)
		for k, v := range res.Funcs {
			funcs[k] = v
		}
		for _, m := range res.Inconclusive {
			inconcl = append(inconcl, h.Name+": "+m)
		}
		if res.ReachSat == 0 {
			inconcl = append(inconcl, h.Name+": no reachability witness was satisfiable (harness never reaches its end: vacuous)")
		}
		for id, ok := range res.reachIDs {
			if !ok {
				inconcl = append(inconcl, h.Name+": reachability witness "+id+" is not satisfiable in any case (vacuous harness)")
			}
		}
		samples = append(samples, res.Samples...)
		// lock discipline: every field must have a mutex common to all its accesses
		var fkeys []string
		for k := range res.fieldAcc {
			fkeys = append(fkeys, k)
		}
		sort.Strings(fkeys)
		for _, k := range fkeys {
			accs := res.fieldAcc[k]
			common := map[string]bool{}
			for i, a := range accs {
				set := map[string]bool{}
				for _, l := range strings.Fields(a.held) {
					set[l] = true
				}
				if i == 0 {
					common = set
				} else {
					for l := range common {
						if !set[l] {
							delete(common, l)
						}
					}
				}
			}
			res.Asserts++
			res.distinctIDs["common-lock:"+k] = true
			if len(common) > 0 || len(accs) == 0 {
				res.Discharged++
				continue
			}
			// name one pair with disjoint locksets
			reported := map[string]bool{}
			for i := range accs {
				for j := i + 1; j < len(accs); j++ {
					disjoint := true
					for _, l := range strings.Fields(accs[i].held) {
						for _, l2 := range strings.Fields(accs[j].held) {
							if l == l2 {
								disjoint = false
							}
						}
					}
					if !disjoint {
						continue
					}
					fa, fb := shortFn(accs[i].fn), shortFn(accs[j].fn)
					if fa > fb {
						fa, fb = fb, fa
					}
					id := fmt.Sprintf("no-common-lock:%s:%s[%s]~%s[%s]", k, fa, accs[i].held, fb, accs[j].held)
					if accs[i].fn > accs[j].fn {
						id = fmt.Sprintf("no-common-lock:%s:%s[%s]~%s[%s]", k, fa, accs[j].held, fb, accs[i].held)
					}
					if reported[id] {
						continue
					}
					reported[id] = true
					res.Violations = append(res.Violations, &Violation{Harness: h.Name, ID: id, Signature: h.Name + "/" + id, Case: accs[i].cas + " | " + accs[j].cas, Pos: accs[i].pos + " | " + accs[j].pos, Kind: "lockset", Model: map[string]string{"access1": accs[i].fn + " holding [" + accs[i].held + "]", "access2": accs[j].fn + " holding [" + accs[j].held + "]"}})
				}
			}
		}
		// dedupe violations by signature
		seen := map[string]*Violation{}
		var sigs []string
		for _, v := range res.Violations {
			if _, ok := seen[v.Signature]; !ok {
				seen[v.Signature] = v
				sigs = append(sigs, v.Signature)
			}
		}
		sort.Strings(sigs)
		for _, sig := range sigs {
			v := seen[sig]
			for _, k := range r.known {
				if globMatch(k.Signature, sig) {
					v.Known = true
					v.KnownDesc = k.Description
				}
			}
			os.MkdirAll(cexDir, 0o755)
			v.ReplayPath = filepath.Join(cexDir, sanitize(sig)+".json")
			writeJSON(v.ReplayPath, map[string]interface{}{"property": prop, "harness": v.Harness, "obligation": v.ID, "signature": sig, "case": v.Case, "pos": v.Pos, "kind": v.Kind, "model": v.Model})
			if h.Replay != nil {
				atomic.AddInt64(&replaysRun, 1)
				v.Replayed, v.ReplayOut = runReplay(r.hdir, h.Replay, v.ReplayPath)
			} else {
				v.Replayed = "no-driver"
			}
			samples = append(samples, map[string]interface{}{"violation": sig, "case": v.Case, "model": v.Model, "replayed": v.Replayed, "known": v.Known})
			switch {
			case v.Replayed == "not-reproduced" || v.Replayed == "error":
				inconcl = append(inconcl, fmt.Sprintf("%s: counterexample for %s did not reproduce natively (%s): encoding or stub suspect\n%s", h.Name, sig, v.Replayed, tail(v.ReplayOut, 800)))
			case v.Known:
				knownLines = append(knownLines, fmt.Sprintf("KNOWN-FINDING: property=%s %s — %s", prop, sig, v.KnownDesc))
			default:
				nViol++
				violLines = append(violLines, fmt.Sprintf("VIOLATION property=%s replay=%s", prop, v.ReplayPath))
				fmt.Printf("violation detail: %s case={%s} at %s replay=%s\n", sig, v.Case, v.Pos, v.Replayed)
			}
		}
		harnessSummaries = append(harnessSummaries, map[string]interface{}{
			"harness": h.Name, "cases": res.Cases, "asserts": res.Asserts, "discharged": res.Discharged,
			"reach_witnesses": res.Reaches, "reach_sat": res.ReachSat, "unwind_events": res.Unwinds,
			"implicit_panic_sites": res.PanicsSeen, "panic_obligations_checked": res.PanicsChecked, "would_block_events": res.Blocks,
			"unwind": res.Unwind, "bounds": res.Bounds, "violations": len(sigs), "exec_wall_s": round2(res.Wall), "note": h.Note, "goroutines_spawned_not_run": res.Spawns,
		})
	}
	for _, l := range knownLines {
		fmt.Println(l)
	}
	for _, l := range violLines {
		fmt.Println(l)
	}
	if nViol > 0 {
		exit = 1
	}
	if len(inconcl) > 0 {
		for _, m := range inconcl {
			fmt.Println("INCONCLUSIVE:", m)
		}
		if exit == 0 {
			exit = 2
		}
	}
	// evidence
	var fnList []string
	for k := range funcs {
		fnList = append(fnList, k)
	}
	sort.Strings(fnList)
	encoded := []string{}
	ninstr := 0
	for _, k := range fnList {
		ninstr += funcs[k]
		if strings.Contains(k, "massnet.org/mass") || strings.Contains(k, "mass-core") {
			encoded = append(encoded, fmt.Sprintf("%s (%d instr)", k, funcs[k]))
		}
	}
	if len(samples) == 0 {
		samples = append(samples, map[string]string{"note": "no witness recorded"})
	}
	if len(samples) > 40 {
		samples = samples[:40]
	}
	seed, _ := strconv.Atoi(os.Getenv("VERIF_SEED"))
	ev := map[string]interface{}{
		"property_id": prop, "tier": tier, "seed": seed, "level": "model_checking",
		"wall_s": round2(wall), "violations": nViol,
		"assumptions": append(append([]string{}, r.cfg.Assumptions...), "bounded: loops unrolled to the per-harness unwind bound with unwinding assertions; sizes as listed under coverage.harnesses[].bounds; anything larger is outside the claim"),
		"coverage": map[string]interface{}{
			"evaluations":         int(atomic.LoadInt64(&GStats.Queries) + atomic.LoadInt64(&foldedObligations)),
			"states":              maxInt(totalCases, 1),
			"transitions":         maxInt(int(atomic.LoadInt64(&totalSteps)), 1),
			"traces_validated_against_impl": int(atomic.LoadInt64(&replaysRun)),
			"obligations_decided_by_constant_folding": int(atomic.LoadInt64(&foldedObligations)),
			"distinct_nontrivial": distinct,
			"rule":                "states = fork cases executed symbolically, transitions = SSA instructions executed symbolically, traces_validated_against_impl = counterexamples replayed natively in this run; each evaluation is one SMT query or one obligation whose negation the term simplifier folded to false; (obligation, reachability witness, unwinding assertion or branch-feasibility check) over the symbolic encoding of the real SSA; distinct_nontrivial counts distinct (assertion id, fork case) pairs reached by a harness run" + r.cfg.Rule,
			"samples":             samples,
			"obligations":         totalAsserts,
			"discharged":          totalDischarged,
			"checker_cmd":         fmt.Sprintf("bin/vcheck -p %s -tier %s", prop, tier),
			"trusted_base":        append([]string{"go/ssa front end (x/tools v0.29.0)", "gosmt encoder (/verif/engine)", "z3 4.8.12"}, r.cfg.Trusted...),
			"harnesses":           harnessSummaries,
			"fork_cases":          totalCases,
			"reachability_witnesses_sat": reachSat,
			"functions_encoded":   encoded,
			"functions_encoded_total": len(fnList),
			"ssa_instructions_encoded": ninstr,
			"solver":              map[string]interface{}{"queries": GStats.Queries, "sat": GStats.Sat, "unsat": GStats.Unsat, "unknown": GStats.Unknown, "time_s": round2(float64(GStats.TimeNanos) / 1e9)},
			"load_s":              round2(loadS),
			"inconclusive":        inconcl,
			"exhaustive":          false,
		},
	}
	os.MkdirAll(filepath.Join(verifDir, "evidence"), 0o755)
	writeJSON(filepath.Join(verifDir, "evidence", prop+".json"), ev)
	fmt.Printf("%s tier=%s: %d harnesses, %d cases, %d/%d obligations discharged, %d violations, %d inconclusive, %d solver queries (%.1fs solver), wall %.1fs\n",
		prop, tier, len(hs), totalCases, totalDischarged, totalAsserts, nViol, len(inconcl), GStats.Queries, float64(GStats.TimeNanos)/1e9, wall)
	return exit
}

func shortFn(fn string) string {
	if j := strings.LastIndex(fn, "/"); j >= 0 {
		fn = fn[j+1:]
	}
	return fn
}

func maxInt(a, b int) int {
	if a > b {
		return a
	}
	return b
}

func tail(s string, n int) string {
	if len(s) > n {
		return s[len(s)-n:]
	}
	return s
}

func round2(f float64) float64 { return float64(int(f*100)) / 100 }

func writeJSON(path string, v interface{}) {
	b, _ := json.MarshalIndent(v, "", " ")
	os.WriteFile(path, append(b, '\n'), 0o644)
}

// runReplay runs the native replay driver for a counterexample.
func runReplay(hdir string, rc *ReplayCfg, cexPath string) (string, string) {
	tmp, err := os.MkdirTemp("", "vsreplay")
	if err != nil {
		return "error", err.Error()
	}
	defer os.RemoveAll(tmp)
	pkgDir := filepath.Join(repoDir, rc.Pkg)
	ov := map[string]map[string]string{"Replace": {filepath.Join(pkgDir, "zz_verif_replay_test.go"): filepath.Join(hdir, rc.File)}}
	for _, x := range rc.Extra {
		ov["Replace"][filepath.Join(repoDir, x.Pkg, "zz_verif_"+filepath.Base(x.File))] = filepath.Join(hdir, x.File)
	}
	for i, sc := range rc.Scale {
		src, err := os.ReadFile(filepath.Join(repoDir, sc.File))
		if err != nil || strings.Count(string(src), sc.From) != 1 {
			return "error", "scale: " + sc.File + ": pattern does not match exactly once"
		}
		dst := filepath.Join(tmp, fmt.Sprintf("scaled%d.go", i))
		os.WriteFile(dst, []byte(strings.Replace(string(src), sc.From, sc.To, 1)), 0o644)
		ov["Replace"][filepath.Join(repoDir, sc.File)] = dst
	}
	ovPath := filepath.Join(tmp, "overlay.json")
	writeJSON(ovPath, ov)
	args := []string{"test", "-vet=off", "-count=1", "-overlay", ovPath, "-run", "^" + rc.Test + "$", "-v"}
	if rc.Tags != "" {
		args = append(args, "-tags", rc.Tags)
	}
	if rc.Race {
		args = append(args, "-race")
	}
	args = append(args, ".")
	cmd := exec.Command("timeout", append([]string{"600", "go"}, args...)...)
	cmd.Dir = pkgDir
	cmd.Env = append(os.Environ(), "GOFLAGS=-mod=mod", "GOPROXY=off", "GOSUMDB=off", "GOTOOLCHAIN=local", "VS_MODEL="+cexPath, "TMPDIR="+tmp)
	out, _ := cmd.CombinedOutput()
	s := string(out)
	switch {
	case rc.Race && strings.Contains(s, "WARNING: DATA RACE"):
		return "confirmed", s
	case rc.Race && strings.Contains(s, "VSREPLAY-RACE-RUN-COMPLETE"):
		return "not-reproduced", s
	case strings.Contains(s, "VSREPLAY-NO-SCENARIO"):
		return "no-driver", s
	case strings.Contains(s, "VSREPLAY-CONFIRMED"):
		return "confirmed", s
	case strings.Contains(s, "VSREPLAY-NOT-REPRODUCED"):
		return "not-reproduced", s
	}
	return "error", s
}

func doReplay(prop, path string) int {
	b, err := os.ReadFile(path)
	if err != nil {
		fmt.Fprintln(os.Stderr, err)
		return 2
	}
	var cex struct {
		Property string `json:"property"`
		Harness  string `json:"harness"`
	}
	json.Unmarshal(b, &cex)
	if prop == "" {
		prop = cex.Property
	}
	cfg, hdir := loadCfg(prop)
	for _, h := range cfg.Harnesses {
		if h.Name == cex.Harness {
			if h.Replay == nil {
				fmt.Println("no native replay driver for harness", h.Name, "- the counterexample file lists the model values")
				fmt.Println(string(b))
				return 2
			}
			st, out := runReplay(hdir, h.Replay, path)
			fmt.Println(out)
			fmt.Println("replay:", st)
			if st == "confirmed" {
				return 1
			}
			if st == "not-reproduced" {
				return 0
			}
			return 2
		}
	}
	fmt.Fprintln(os.Stderr, "harness not found:", cex.Harness)
	return 2
}
