package main

// Bounded symbolic executor for Go SSA with fork/merge at immediate post-dominators.

import (
	"fmt"
	"go/constant"
	"go/token"
	"go/types"
	"os"
	"sort"
	"strconv"
	"strings"
	"time"
	"sync"

	"golang.org/x/tools/go/ssa"
)

// State: heap plus the path condition kept as a list of conjuncts (so that forks share a prefix, merges factor it
// out again, and feasibility queries can be sliced by constraint independence).
type State struct {
	heap   *Heap
	pcs    []*Term
	isDead bool
	pcMemo *Term
	// literal facts implied syntactically by the conjuncts (atom → truth value), rebuilt lazily when pcs changes
	atomMap  map[*Term]bool
	atomLen  int
	atomLast *Term
}

// atoms returns the literal facts of the path condition: every conjunct (flattened through And and through
// negated Or) that is an atom or a negated atom.
func (st *State) atoms() map[*Term]bool {
	n := len(st.pcs)
	var last *Term
	if n > 0 {
		last = st.pcs[n-1]
	}
	if st.atomMap != nil && st.atomLen == n && st.atomLast == last {
		return st.atomMap
	}
	m := make(map[*Term]bool, 2*n)
	var add func(t *Term, val bool)
	add = func(t *Term, val bool) {
		switch {
		case t.Op == OpNot:
			add(t.Args[0], !val)
		case t.Op == OpAnd && val:
			add(t.Args[0], true)
			add(t.Args[1], true)
		case t.Op == OpOr && !val:
			add(t.Args[0], false)
			add(t.Args[1], false)
		default:
			m[t] = val
		}
	}
	for _, c := range st.pcs {
		add(c, true)
	}
	st.atomMap, st.atomLen, st.atomLast = m, n, last
	return m
}

// known evaluates a boolean term under the literal facts of the path condition: 1 true, 0 false, -1 unknown.
func (st *State) known(t *Term) int {
	if t.IsConst() {
		if t.IsTrue() {
			return 1
		}
		return 0
	}
	if len(st.pcs) == 0 {
		return -1
	}
	return evalKnown(t, st.atoms(), 6)
}

func evalKnown(t *Term, atoms map[*Term]bool, depth int) int {
	if t.IsConst() {
		if t.IsTrue() {
			return 1
		}
		return 0
	}
	if v, ok := atoms[t]; ok {
		if v {
			return 1
		}
		return 0
	}
	if depth == 0 || t.W != 0 {
		return -1
	}
	switch t.Op {
	case OpNot:
		if v := evalKnown(t.Args[0], atoms, depth-1); v >= 0 {
			return 1 - v
		}
	case OpAnd:
		a, b := evalKnown(t.Args[0], atoms, depth-1), evalKnown(t.Args[1], atoms, depth-1)
		if a == 0 || b == 0 {
			return 0
		}
		if a == 1 && b == 1 {
			return 1
		}
	case OpOr:
		a, b := evalKnown(t.Args[0], atoms, depth-1), evalKnown(t.Args[1], atoms, depth-1)
		if a == 1 || b == 1 {
			return 1
		}
		if a == 0 && b == 0 {
			return 0
		}
	case OpIte:
		c := evalKnown(t.Args[0], atoms, depth-1)
		if c == 1 {
			return evalKnown(t.Args[1], atoms, depth-1)
		}
		if c == 0 {
			return evalKnown(t.Args[2], atoms, depth-1)
		}
	}
	return -1
}

func (st *State) dead() bool { return st.isDead }

func (st *State) kill() { st.isDead = true; st.pcs = nil; st.pcMemo = nil }

func (st *State) assume(c *Term) {
	if st.isDead || c.IsTrue() {
		return
	}
	if c.IsFalse() {
		st.kill()
		return
	}
	// cheap syntactic contradiction / redundancy detection against the existing conjuncts
	var nc *Term
	if c.Op == OpNot {
		nc = c.Args[0]
	}
	for _, p := range st.pcs {
		if p == c {
			return
		}
		if p == nc || (p.Op == OpNot && p.Args[0] == c) {
			st.kill()
			return
		}
		if c.Op == OpEq && p.Op == OpEq && c.Args[1].IsConst() && p.Args[1].IsConst() && c.Args[0] == p.Args[0] && c.Args[1] != p.Args[1] {
			st.kill()
			return
		}
	}
	// full-slice append: never alias a sibling's backing array
	st.pcs = append(st.pcs[:len(st.pcs):len(st.pcs)], c)
	st.pcMemo = nil
}

func (st *State) pcTerm() *Term {
	if st.isDead {
		return False
	}
	if st.pcMemo == nil {
		st.pcMemo = AndN(st.pcs...)
		if st.pcMemo.IsFalse() {
			st.isDead = true
		}
	}
	return st.pcMemo
}

func (st *State) fork(g *Term) *State {
	n := &State{heap: newHeap(st.heap), pcs: st.pcs[:len(st.pcs):len(st.pcs)], isDead: st.isDead}
	n.assume(g)
	return n
}

type deferred struct {
	g    *Term
	fn   Value
	args []Value
	call *ssa.CallCommon
}

type Frame struct {
	fn     *ssa.Function
	regs   map[ssa.Value]Value
	defers []deferred
	visits map[*ssa.BasicBlock]int
	result Value
	depth  int
	symDepth int // number of enclosing symbolic forks in this frame
	nest     map[*ssa.BasicBlock]int // nesting depth of symbolic forks per branching block (loop unwinding)
}

func (fr *Frame) clone() *Frame {
	n := &Frame{fn: fr.fn, regs: make(map[ssa.Value]Value, len(fr.regs)+8), visits: make(map[*ssa.BasicBlock]int, len(fr.visits)), depth: fr.depth, symDepth: fr.symDepth + 1}
	for k, v := range fr.regs {
		n.regs[k] = v
	}
	for k, v := range fr.visits {
		n.visits[k] = v
	}
	n.defers = append([]deferred(nil), fr.defers...)
	n.result = fr.result
	n.nest = make(map[*ssa.BasicBlock]int, len(fr.nest)+1)
	for k, v := range fr.nest {
		n.nest[k] = v
	}
	return n
}

type Obligation struct {
	ID   string
	PC   *Term
	Cond *Term
	Pos  string
	Case string
}

type Event struct {
	Kind string
	PC   *Term
	Pos  string
	Msg  string
	Case string
}

type NondetVar struct {
	Name string
	T    *Term
}

type Exec struct {
	prog    *ssa.Program
	solver  *Solver
	root    *Heap
	nextObj int

	unwind       int
	concreteCap  int
	maxDepth     int
	feasTimeout  int
	checkFeas    bool
	bounds       map[string]int
	overrides    map[string]*ssa.Function
	skipInitPkgs map[string]bool

	asserts  []Obligation
	reaches  []Obligation
	panics   []Event
	unwinds  []Event
	blocks   []Event // would-block events
	spawns   []string
	pools    map[int][]Value // sync.Pool contents by pool object
	syncMaps map[string]*MapVal // sync.Map contents by map object (entries guarded by the storing path condition)
	spawned  []spawnRec // goroutines started by `go` (not scheduled; vsRunSpawned runs one until it returns or blocks)
	nondets  []NondetVar
	observes []NondetVar
	notes    []string

	funcs map[string]int // functions encoded → SSA instruction count

	forkChoices []int
	forkSizes   []int
	forkLabels  []string
	forkPos     int

	globals   map[*ssa.Global]int
	strConsts map[string]*SliceV
	pdoms     map[*ssa.Function]map[*ssa.BasicBlock]*ssa.BasicBlock
	initDone  map[*ssa.Package]bool
	ctx       []string // call stack for diagnostics
	curCase   string
	steps     int64
	maxSteps  int64
	lockObjs  map[int]string
	waits      []Event
	locks      map[string]*lockRef
	lockOrder  []string
	lockEvents []LockEvent
	initAllowed *ssa.Package
	inInit, inLenient bool
	feasAlways bool
	feasTag string
	rub     []*rubCtx
	curInstr ssa.Instruction
	ufApps   map[string][]ufApp
	tracked    map[int]string
	accesses   []AccessEvent
	lockHook   Value
	inLockHook bool
	fresh   map[string]int
	initSkipped []string
}

func NewExec(prog *ssa.Program) *Exec {
	ex := &Exec{prog: prog, nextObj: 1, unwind: 8, concreteCap: 200000, maxDepth: 120, feasTimeout: 2000, checkFeas: true,
		bounds: map[string]int{}, overrides: map[string]*ssa.Function{}, funcs: map[string]int{},
		globals: map[*ssa.Global]int{}, strConsts: map[string]*SliceV{}, pdoms: map[*ssa.Function]map[*ssa.BasicBlock]*ssa.BasicBlock{},
		initDone: map[*ssa.Package]bool{}, maxSteps: 50_000_000, lockObjs: map[int]string{}, locks: map[string]*lockRef{}}
	ex.root = newHeap(nil)
	return ex
}

func (ex *Exec) newObj(st *State, v Value) int {
	id := ex.nextObj
	ex.nextObj++
	st.heap.set(id, v)
	return id
}

func (ex *Exec) newRootObj(v Value) int {
	id := ex.nextObj
	ex.nextObj++
	ex.root.set(id, v)
	return id
}

func (ex *Exec) pos(instr ssa.Instruction) string {
	if instr == nil {
		return "?"
	}
	p := instr.Pos()
	if p == token.NoPos {
		// search nearby
		if b := instr.Block(); b != nil {
			for _, i2 := range b.Instrs {
				if i2.Pos() != token.NoPos {
					p = i2.Pos()
					break
				}
			}
		}
	}
	fn := ""
	if instr.Parent() != nil {
		fn = instr.Parent().String()
	}
	if p == token.NoPos {
		return fn
	}
	ps := ex.prog.Fset.Position(p)
	file := ps.Filename
	if i := strings.Index(file, "/repo/"); i >= 0 {
		file = file[i+6:]
	} else if i := strings.LastIndex(file, "/src/"); i >= 0 {
		file = file[i+5:]
	}
	return fmt.Sprintf("%s:%d(%s)", file, ps.Line, fn)
}

// ---------------------------------------------------------------- events

func (ex *Exec) panicIf(st *State, cond *Term, kind string, instr ssa.Instruction) {
	if cond.IsFalse() || st.dead() {
		return
	}
	ex.panics = append(ex.panics, Event{Kind: kind, PC: And(st.pcTerm(), cond), Pos: ex.pos(instr), Case: ex.curCase, Msg: strings.Join(ex.ctxTail(4), " < ")})
	st.assume(Not(cond))
}

func (ex *Exec) ctxTail(n int) []string {
	var out []string
	for i := len(ex.ctx) - 1; i >= 0 && len(out) < n; i-- {
		out = append(out, ex.ctx[i])
	}
	return out
}

type spawnRec struct {
	fn   Value
	args []Value
}

var traceDepth, _ = strconv.Atoi(os.Getenv("VS_TRACE"))
var traceT0 = time.Now()
var feasCount = map[string]int{}
var feasMu sync.Mutex

func (ex *Exec) feasible(st *State, c *Term) bool {
	if os.Getenv("VS_SLOW") != "" {
		feasMu.Lock()
		feasCount[strings.Join(ex.ctxTail(1), "")+" "+ex.feasTag]++
		feasMu.Unlock()
	}
	if c.IsFalse() || st.dead() {
		return false
	}
	if c.IsTrue() || !ex.checkFeas || ex.solver == nil {
		return true
	}
	return ex.solver.Feasible(ex.feasTimeout, st.pcs, c) != "unsat"
}

// ---------------------------------------------------------------- post-dominators

func (ex *Exec) ipdom(fn *ssa.Function) map[*ssa.BasicBlock]*ssa.BasicBlock {
	if m, ok := ex.pdoms[fn]; ok {
		return m
	}
	n := len(fn.Blocks)
	// node n = virtual exit
	preds := make([][]int, n+1) // reverse-graph successors == CFG predecessors; we need for each node its CFG successors
	succs := make([][]int, n+1)
	for _, b := range fn.Blocks {
		if len(b.Instrs) == 0 {
			continue
		}
		switch b.Instrs[len(b.Instrs)-1].(type) {
		case *ssa.Return:
			succs[b.Index] = append(succs[b.Index], n)
			preds[n] = append(preds[n], b.Index)
		}
		for _, s := range b.Succs {
			succs[b.Index] = append(succs[b.Index], s.Index)
			preds[s.Index] = append(preds[s.Index], b.Index)
		}
	}
	// reverse post-order on reverse graph from exit
	order := []int{}
	seen := make([]bool, n+1)
	var dfs func(int)
	dfs = func(u int) {
		seen[u] = true
		for _, p := range preds[u] {
			if !seen[p] {
				dfs(p)
			}
		}
		order = append(order, u)
	}
	dfs(n)
	rpoNum := make([]int, n+1)
	for i := range rpoNum {
		rpoNum[i] = -1
	}
	for i, u := range order {
		rpoNum[u] = len(order) - 1 - i
	}
	idom := make([]int, n+1)
	for i := range idom {
		idom[i] = -1
	}
	idom[n] = n
	intersect := func(a, b int) int {
		for a != b {
			for rpoNum[a] > rpoNum[b] {
				a = idom[a]
			}
			for rpoNum[b] > rpoNum[a] {
				b = idom[b]
			}
		}
		return a
	}
	changed := true
	for changed {
		changed = false
		for i := len(order) - 1; i >= 0; i-- {
			u := order[i]
			if u == n {
				continue
			}
			nd := -1
			for _, s := range succs[u] {
				if rpoNum[s] < 0 || idom[s] == -1 {
					continue
				}
				if nd == -1 {
					nd = s
				} else {
					nd = intersect(nd, s)
				}
			}
			if nd != -1 && idom[u] != nd {
				idom[u] = nd
				changed = true
			}
		}
	}
	m := map[*ssa.BasicBlock]*ssa.BasicBlock{}
	for _, b := range fn.Blocks {
		d := idom[b.Index]
		if d >= 0 && d < n {
			m[b] = fn.Blocks[d]
		} else {
			m[b] = nil
		}
	}
	ex.pdoms[fn] = m
	return m
}

// ---------------------------------------------------------------- fork / merge

type arm struct {
	st *State
	fr *Frame
	g  *Term
	rv Value
}

// mergeArms merges the arms' heaps, frames and return values into st/fr. Arms' guards are relative conditions.
func (ex *Exec) mergeArms(st *State, fr *Frame, arms []*arm) Value {
	live := arms[:0:0]
	for _, a := range arms {
		if !a.st.dead() {
			live = append(live, a)
		}
	}
	if len(live) == 0 {
		st.kill()
		return nil
	}
	if len(live) == 1 {
		a := live[0]
		for k, v := range a.st.heap.m {
			st.heap.m[k] = v
		}
		st.pcs, st.isDead, st.pcMemo = a.st.pcs, a.st.isDead, nil
		if fr != nil && a.fr != nil {
			fr.regs = a.fr.regs
			fr.visits = a.fr.visits
			fr.defers = a.fr.defers
			fr.result = a.fr.result
		}
		return a.rv
	}
	// heap: union of written keys
	keys := map[int]bool{}
	for _, a := range live {
		for k := range a.st.heap.m {
			keys[k] = true
		}
	}
	ks := make([]int, 0, len(keys))
	for k := range keys {
		ks = append(ks, k)
	}
	sort.Ints(ks)
	for _, k := range ks {
		var acc Value
		for i := len(live) - 1; i >= 0; i-- {
			a := live[i]
			v, ok := a.st.heap.get(k)
			if !ok {
				continue // object allocated in another arm: invisible here
			}
			if acc == nil {
				acc = v
			} else {
				acc = mergeValue(a.g, v, acc)
			}
		}
		st.heap.m[k] = acc
	}
	// path condition: common prefix (the parent's conjuncts) ∧ (∨ over arms of their own suffixes)
	n0 := len(st.pcs)
	for _, a := range live {
		k := 0
		for k < n0 && k < len(a.st.pcs) && a.st.pcs[k] == st.pcs[k] {
			k++
		}
		n0 = k
	}
	disj := False
	for _, a := range live {
		disj = Or(disj, AndN(a.st.pcs[n0:]...))
	}
	st.pcs = st.pcs[:n0:n0]
	st.pcMemo = nil
	st.assume(disj)
	var rv Value
	for i := len(live) - 1; i >= 0; i-- {
		a := live[i]
		if i == len(live)-1 {
			rv = a.rv
		} else {
			rv = mergeValue(a.g, a.rv, rv)
		}
	}
	if fr != nil && live[0].fr != nil {
		last := live[len(live)-1].fr
		regs := last.regs
		res := last.result
		visits := last.visits
		for i := len(live) - 2; i >= 0; i-- {
			a := live[i]
			for k, v := range a.fr.regs {
				if o, ok := regs[k]; ok {
					if o != v {
						regs[k] = mergeValue(a.g, v, o)
					}
				} else {
					regs[k] = v
				}
			}
			res = mergeValue(a.g, a.fr.result, res)
			for b, c := range a.fr.visits {
				if c > visits[b] {
					visits[b] = c
				}
			}
		}
		// defers: common prefix + guarded extras
		base := len(fr.defers)
		for _, a := range live {
			if len(a.fr.defers) < base { // the arm already ran its deferred calls (it is at the function exit)
				base = len(a.fr.defers)
			}
		}
		var defs []deferred
		defs = append(defs, fr.defers[:base]...)
		for _, a := range live {
			for _, d := range a.fr.defers[base:] {
				d.g = And(d.g, a.g)
				defs = append(defs, d)
			}
		}
		fr.regs = regs
		fr.result = res
		fr.visits = visits
		fr.defers = defs
	}
	return rv
}

// forkN runs body for each guard on a forked state and merges.
func (ex *Exec) forkN(st *State, fr *Frame, guards []*Term, body func(i int, st *State, fr *Frame) Value) Value {
	// single feasible guard fast path
	var idx []int
	for i, g := range guards {
		if g.IsFalse() || st.known(g) == 0 {
			continue
		}
		idx = append(idx, i)
	}
	if len(idx) > 1 {
		var keep []int
		for _, i := range idx {
			ex.feasTag = "forkN"
			if ex.feasible(st, guards[i]) {
				keep = append(keep, i)
			}
		}
		idx = keep
	}
	if len(idx) == 0 {
		st.kill()
		return nil
	}
	if len(idx) == 1 {
		// the only feasible alternative: its guard is implied (or assumed) by pc
		st.assume(guards[idx[0]])
		return body(idx[0], st, fr)
	}
	arms := make([]*arm, 0, len(idx))
	for _, i := range idx {
		a := &arm{g: guards[i], st: st.fork(guards[i])}
		if fr != nil {
			a.fr = fr.clone()
		}
		a.rv = body(i, a.st, a.fr)
		arms = append(arms, a)
	}
	return ex.mergeArms(st, fr, arms)
}

// ---------------------------------------------------------------- running functions

func (ex *Exec) callFunction(st *State, fn *ssa.Function, args []Value, site ssa.Instruction, depth int) Value {
	if st.dead() {
		return nil
	}
	name := fn.String()
	if ov, ok := ex.overrides[name]; ok && ov != fn {
		// a stub may call the function it replaces (the call from inside the stub reaches the real body)
		if n := len(ex.ctx); n == 0 || ex.ctx[n-1] != ov.String() {
			fn = ov
			name = fn.String()
		}
	}
	if f, ok := lookupIntrinsic(fn); ok {
		return f(ex, st, fn, args, site)
	}
	if fn.Name() == "init" && fn.Synthetic != "" && fn.Pkg != ex.initAllowed {
		return nil // dependency package initialisers are not run (listed per harness unit instead)
	}
	if ex.inInit && depth > 0 && !ex.inLenient {
		// lenient package initialisation: an initialiser expression the engine cannot execute leaves its
		// variable at the zero value (recorded); the harness fails visibly if it depends on such a variable
		ex.inLenient = true
		nctx := len(ex.ctx)
		pc0, dead0 := st.pcs, st.isDead
		var res Value
		func() {
			defer func() {
				if e := recover(); e != nil {
					ex.ctx = ex.ctx[:nctx]
					ex.initSkipped = append(ex.initSkipped, fmt.Sprintf("%s: %v", name, e))
					st.pcs, st.isDead, st.pcMemo = pc0, dead0, nil
					res = zeroResult(fn)
				}
			}()
			res = ex.callFunction(st, fn, args, site, depth)
		}()
		if st.dead() && !dead0 {
			ex.initSkipped = append(ex.initSkipped, name+": panics during initialisation (skipped)")
			st.pcs, st.isDead, st.pcMemo = pc0, dead0, nil
			res = zeroResult(fn)
		}
		ex.inLenient = false
		return res
	}
	if fn.Blocks == nil {
		if fn.Synthetic != "" || fn.Pkg != nil {
			// try to build lazily
		}
		panic(unsupported("call to function without body: " + name + " at " + ex.pos(site)))
	}
	if depth > ex.maxDepth {
		panic(unsupported("call depth exceeded at " + name))
	}
	if _, ok := ex.funcs[name]; !ok {
		n := 0
		for _, b := range fn.Blocks {
			n += len(b.Instrs)
		}
		ex.funcs[name] = n
	}
	fr := &Frame{fn: fn, regs: make(map[ssa.Value]Value, 32), visits: map[*ssa.BasicBlock]int{}, depth: depth}
	for i, p := range fn.Params {
		if i < len(args) {
			fr.regs[p] = args[i]
		}
	}
	ex.ctx = append(ex.ctx, name)
	if traceDepth > 0 && len(ex.ctx) <= traceDepth {
		fmt.Fprintf(os.Stderr, "TRACE %6.1fs %s%s steps=%d pcs=%d\n", time.Since(traceT0).Seconds(), strings.Repeat(" ", len(ex.ctx)), name, ex.steps, len(st.pcs))
	}
	ex.run(st, fr, fn.Blocks[0], nil)
	ex.ctx = ex.ctx[:len(ex.ctx)-1]
	return fr.result
}

func (ex *Exec) get(fr *Frame, v ssa.Value) Value {
	switch x := v.(type) {
	case *ssa.Const:
		return ex.constValue(x)
	case *ssa.Global:
		return &PtrC{Obj: ex.globalObj(x)}
	case *ssa.Function:
		return &FuncC{Fn: x}
	case *ssa.Builtin:
		return &FuncC{Builtin: x}
	}
	r, ok := fr.regs[v]
	if !ok {
		panic(fmt.Sprintf("register %s (%T) undefined in %s", v.Name(), v, fr.fn))
	}
	return r
}

func (ex *Exec) globalObj(g *ssa.Global) int {
	if id, ok := ex.globals[g]; ok {
		return id
	}
	t := g.Type().(*types.Pointer).Elem()
	id := ex.newRootObj(zeroValue(t))
	ex.globals[g] = id
	return id
}

func (ex *Exec) constValue(c *ssa.Const) Value {
	t := c.Type()
	if c.Value == nil {
		return zeroValue(t)
	}
	if w, _, ok := intWidth(t); ok {
		if v, exact := constant.Int64Val(constant.ToInt(c.Value)); exact {
			return BV(w, uint64(v))
		}
		v, _ := constant.Uint64Val(constant.ToInt(c.Value))
		return BV(w, v)
	}
	switch {
	case isBoolT(t):
		return Bool(constant.BoolVal(c.Value))
	case isString(t):
		return ex.strConst(constant.StringVal(c.Value))
	case isFloat(t):
		f, _ := constant.Float64Val(c.Value)
		if b := t.Underlying().(*types.Basic); b.Kind() == types.Float32 {
			f = float64(float32(f))
		}
		return &FloatV{F: f}
	}
	panic(unsupported("constant of type " + t.String()))
}

// edge evaluates the phis of `to` for the edge from→to.
func (ex *Exec) edge(fr *Frame, from, to *ssa.BasicBlock) {
	var idx = -1
	for i, p := range to.Preds {
		if p == from {
			idx = i
			break
		}
	}
	var vals []Value
	var phis []*ssa.Phi
	for _, instr := range to.Instrs {
		phi, ok := instr.(*ssa.Phi)
		if !ok {
			break
		}
		phis = append(phis, phi)
		vals = append(vals, ex.get(fr, phi.Edges[idx]))
	}
	for i, phi := range phis {
		fr.regs[phi] = vals[i]
	}
}

// run executes from block b until reaching stop (returns true) or until the function returns / the state dies.
func (ex *Exec) run(st *State, fr *Frame, b *ssa.BasicBlock, stop *ssa.BasicBlock) bool {
	for {
		if st.dead() {
			return false
		}
		fr.visits[b]++
		if fr.visits[b] > ex.concreteCap {
			panic(unsupported(fmt.Sprintf("concrete loop cap exceeded in %s", fr.fn)))
		}
		var next *ssa.BasicBlock
		for _, instr := range b.Instrs {
			ex.curInstr = instr
			ex.steps++
			if ex.steps > ex.maxSteps {
				panic(unsupported("step budget exceeded"))
			}
			switch in := instr.(type) {
			case *ssa.Phi:
				continue
			case *ssa.Jump:
				next = b.Succs[0]
			case *ssa.Return:
				switch len(in.Results) {
				case 0:
					fr.result = nil
				case 1:
					fr.result = ex.get(fr, in.Results[0])
				default:
					a := &Agg{E: make([]Value, len(in.Results))}
					for i, r := range in.Results {
						a.E[i] = ex.get(fr, r)
					}
					fr.result = a
				}
				return false
			case *ssa.Panic:
				ex.panics = append(ex.panics, Event{Kind: "explicit panic", PC: st.pcTerm(), Pos: ex.pos(in), Case: ex.curCase})
				st.kill()
				return false
			case *ssa.If:
				c := ex.get(fr, in.Cond).(*Term)
				if k := st.known(c); k >= 0 {
					c = Bool(k == 1)
				}
				if c.IsTrue() {
					next = b.Succs[0]
				} else if c.IsFalse() {
					next = b.Succs[1]
				} else {
					t1, t2 := true, true
					if n := fr.nest[b]; (n >= 2 && n&(n-1) == 0) || ex.feasAlways { // sparse pruning checks at nesting 2,4,8,...
						ex.feasTag = "if@" + ex.pos(in)
						t1 = ex.feasible(st, c)
						t2 = ex.feasible(st, Not(c))
					}
					switch {
					case !t1 && !t2:
						if os.Getenv("VS_DEBUGKILL") != "" {
							fmt.Fprintf(os.Stderr, "KILL both arms infeasible at %s case %s\n", ex.pos(in), ex.curCase)
							for _, q := range st.pcs {
								fmt.Fprintf(os.Stderr, "   pc: %.300s\n", q.String())
							}
							fmt.Fprintf(os.Stderr, "   c: %.300s\n", c.String())
						}
						st.kill()
						return false
					case t1 && !t2:
						st.assume(c)
						next = b.Succs[0]
					case !t1 && t2:
						st.assume(Not(c))
						next = b.Succs[1]
					default:
						// unwinding check: a symbolic branch revisited too often in this frame
						if fr.nest[b] >= ex.unwind {
							ex.unwinds = append(ex.unwinds, Event{Kind: "unwind", PC: st.pcTerm(), Pos: ex.pos(in), Case: ex.curCase})
							st.kill()
							return false
						}
						ip := ex.ipdom(fr.fn)[b]
						arms := make([]*arm, 2)
						for k := 0; k < 2; k++ {
							g := c
							if k == 1 {
								g = Not(c)
							}
							a := &arm{g: g, st: st.fork(g), fr: fr.clone()}
							arms[k] = a
							a.fr.nest[b]++
							succ := b.Succs[k]
							ex.edge(a.fr, b, succ)
							if succ != ip {
								ex.run(a.st, a.fr, succ, ip)
							}
						}
						ex.mergeArms(st, fr, arms)
						if st.dead() || ip == nil {
							return false
						}
						if ip == stop {
							return true
						}
						b = ip
						goto continueOuter
					}
				}
			default:
				ex.instr(st, fr, instr)
				if st.dead() {
					return false
				}
			}
		}
		if next == nil {
			panic(fmt.Sprintf("block %d of %s fell through", b.Index, fr.fn))
		}
		ex.edge(fr, b, next)
		if next == stop {
			return true
		}
		b = next
	continueOuter:
	}
}

func (ex *Exec) fatal(format string, args ...interface{}) {
	fmt.Fprintf(os.Stderr, format+"\n", args...)
	os.Exit(2)
}

func zeroResult(fn *ssa.Function) Value {
	res := fn.Signature.Results()
	switch res.Len() {
	case 0:
		return nil
	case 1:
		return zeroValue(res.At(0).Type())
	}
	return zeroValue(res)
}

// AccessEvent: a field of a tracked (shared) object was addressed while the listed locks were held.
type AccessEvent struct {
	Obj, Field, Func, Pos, Held, Case string
	PC                                  *Term
}

// constCands: the finite set of constants a bit-vector term can evaluate to, when it is built from constants by
// if-then-else and arithmetic only (conditions are ignored, so the set over-approximates); nil if not of that shape.
func constCands(t *Term, memo map[*Term][]*Term, depth int) []*Term {
	if t.IsConst() {
		return []*Term{t}
	}
	if r, ok := memo[t]; ok {
		return r
	}
	memo[t] = nil
	if depth > 48 || t.W == 0 {
		return nil
	}
	var out []*Term
	add := func(c *Term) {
		for _, o := range out {
			if o == c {
				return
			}
		}
		out = append(out, c)
	}
	switch t.Op {
	case OpIte:
		a, b := constCands(t.Args[1], memo, depth+1), constCands(t.Args[2], memo, depth+1)
		if a == nil || b == nil {
			return nil
		}
		for _, x := range a {
			add(x)
		}
		for _, x := range b {
			add(x)
		}
	case OpBvAdd, OpBvSub, OpBvMul, OpExtract, OpZext, OpSext, OpBvNeg, OpConcat:
		sets := make([][]*Term, len(t.Args))
		n := 1
		for i, a := range t.Args {
			sets[i] = constCands(a, memo, depth+1)
			if sets[i] == nil {
				return nil
			}
			n *= len(sets[i])
		}
		if n > 16 {
			return nil
		}
		idx := make([]int, len(sets))
		for {
			args := make([]*Term, len(sets))
			for i := range sets {
				args[i] = sets[i][idx[i]]
			}
			r := rebuild(t, args)
			if !r.IsConst() {
				return nil
			}
			add(r)
			k := 0
			for k < len(idx) {
				idx[k]++
				if idx[k] < len(sets[k]) {
					break
				}
				idx[k] = 0
				k++
			}
			if k == len(idx) {
				break
			}
		}
	default:
		return nil
	}
	if len(out) > 8 {
		return nil
	}
	memo[t] = out
	return out
}

// uniqueConst: if t is a constant, or can only evaluate to a small set of constants of which exactly one is satisfiable
// under the path condition (decided by the solver, not advisory: a candidate is dropped only on "unsat"), returns it.
func (ex *Exec) uniqueConst(st *State, t *Term) (*Term, bool) {
	if t.IsConst() {
		return t, true
	}
	if ex.solver == nil {
		return nil, false
	}
	var live []*Term
	for _, l := range constCands(t, map[*Term][]*Term{}, 0) {
		if ex.solver.Feasible(ex.feasTimeout, st.pcs, Eq(t, l)) != "unsat" {
			live = append(live, l)
		}
	}
	if len(live) == 1 {
		return live[0], true
	}
	return nil, false
}
