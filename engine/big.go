package main

// math/big.Int intrinsic: a *big.Int is a heap object whose value is one signed two's-complement bit-vector of
// width W (bound "bigwidth", default 320). Every operation carries a no-wrap obligation (a too-small W is reported
// as a bound event, never silently truncated).

import (
	"strconv"
	"go/types"
	"math/big"

	"golang.org/x/tools/go/ssa"
)

func (ex *Exec) bigW() int {
	if w, ok := ex.bounds["bigwidth"]; ok && w > 0 {
		return w
	}
	return 320
}

func (ex *Exec) bigGet(st *State, p Value) *Term {
	w := ex.bigW()
	ex.panicIf(st, nilCond(p), "nil *big.Int dereference", ex.curInstr)
	if st.dead() {
		return BV(w, 0)
	}
	v := ex.load(st, dropNil(p))
	agg, ok := v.(*Agg)
	if !ok {
		panic(unsupported("big.Int: unexpected object shape"))
	}
	abs := agg.E[1].(*SliceV)
	if isNilSliceConst(abs) {
		return BV(w, 0)
	}
	t := ex.sliceGet(st, abs, i64(0)).(*Term)
	if t.W != w {
		panic(unsupported("big.Int touched by non-intrinsic code"))
	}
	return t
}

func (ex *Exec) bigSet(st *State, p Value, t *Term) {
	w := ex.bigW()
	if st.dead() {
		return
	}
	ex.panicIf(st, nilCond(p), "nil *big.Int dereference", ex.curInstr)
	if st.dead() {
		return
	}
	p = dropNil(p)
	if t.W != w {
		panic("bigSet width")
	}
	arr := ex.newArray(st, []Value{t})
	neg := Slt(t, BV(w, 0))
	ex.store(st, p, &Agg{E: []Value{neg, &SliceV{Base: arr, Off: i64(0), Len: i64(1), Cap: i64(1)}}})
}

func (ex *Exec) bigNew(st *State, t *Term) Value {
	p := &PtrC{Obj: ex.newObj(st, &Agg{E: []Value{False, &SliceV{Base: nilPtr, Off: i64(0), Len: i64(0), Cap: i64(0)}}})}
	ex.bigSet(st, p, t)
	return p
}

func bigConst(w int, v *big.Int) *Term { return BVBig(w, v) }

func absTerm(t *Term) *Term { return Ite(Slt(t, BV(t.W, 0)), Un(OpBvNeg, t), t) }

func init() {
	type bi = func(ex *Exec, st *State, fn *ssa.Function, args []Value, site ssa.Instruction) Value
	reg := func(name string, f bi) { intrinsics[name] = intrinsic(f) }

	reg("math/big.NewInt", func(ex *Exec, st *State, fn *ssa.Function, args []Value, site ssa.Instruction) Value {
		return ex.bigNew(st, Sext(args[0].(*Term), ex.bigW()))
	})
	// the model of big.Int is its value; the word slice handed out for in-place wiping is empty (zero.BigInt then sets 0)
	reg("(*math/big.Int).Bits", func(ex *Exec, st *State, fn *ssa.Function, args []Value, site ssa.Instruction) Value {
		return ex.mkSliceFromElems(st, nil)
	})
	reg("(*math/big.Int).SetInt64", func(ex *Exec, st *State, fn *ssa.Function, args []Value, site ssa.Instruction) Value {
		ex.bigSet(st, args[0], Sext(args[1].(*Term), ex.bigW()))
		return args[0]
	})
	reg("(*math/big.Int).SetUint64", func(ex *Exec, st *State, fn *ssa.Function, args []Value, site ssa.Instruction) Value {
		ex.bigSet(st, args[0], Zext(args[1].(*Term), ex.bigW()))
		return args[0]
	})
	reg("(*math/big.Int).Set", func(ex *Exec, st *State, fn *ssa.Function, args []Value, site ssa.Instruction) Value {
		ex.bigSet(st, args[0], ex.bigGet(st, args[1]))
		return args[0]
	})
	reg("(*math/big.Int).Int64", func(ex *Exec, st *State, fn *ssa.Function, args []Value, site ssa.Instruction) Value {
		return Extract(63, 0, ex.bigGet(st, args[0]))
	})
	reg("(*math/big.Int).Uint64", func(ex *Exec, st *State, fn *ssa.Function, args []Value, site ssa.Instruction) Value {
		return Extract(63, 0, absTerm(ex.bigGet(st, args[0])))
	})
	reg("(*math/big.Int).IsInt64", func(ex *Exec, st *State, fn *ssa.Function, args []Value, site ssa.Instruction) Value {
		t := ex.bigGet(st, args[0])
		return Eq(Sext(Extract(63, 0, t), t.W), t)
	})
	reg("(*math/big.Int).IsUint64", func(ex *Exec, st *State, fn *ssa.Function, args []Value, site ssa.Instruction) Value {
		t := ex.bigGet(st, args[0])
		return Eq(Zext(Extract(63, 0, t), t.W), t)
	})
	reg("(*math/big.Int).Sign", func(ex *Exec, st *State, fn *ssa.Function, args []Value, site ssa.Instruction) Value {
		t := ex.bigGet(st, args[0])
		z := BV(t.W, 0)
		return Ite(Eq(t, z), i64(0), Ite(Slt(t, z), BV(64, ^uint64(0)), i64(1)))
	})
	reg("(*math/big.Int).Cmp", func(ex *Exec, st *State, fn *ssa.Function, args []Value, site ssa.Instruction) Value {
		a, b := ex.bigGet(st, args[0]), ex.bigGet(st, args[1])
		return Ite(Eq(a, b), i64(0), Ite(Slt(a, b), BV(64, ^uint64(0)), i64(1)))
	})
	reg("(*math/big.Int).CmpAbs", func(ex *Exec, st *State, fn *ssa.Function, args []Value, site ssa.Instruction) Value {
		a, b := absTerm(ex.bigGet(st, args[0])), absTerm(ex.bigGet(st, args[1]))
		return Ite(Eq(a, b), i64(0), Ite(Ult(a, b), BV(64, ^uint64(0)), i64(1)))
	})
	arith := func(op string) bi {
		return func(ex *Exec, st *State, fn *ssa.Function, args []Value, site ssa.Instruction) Value {
			w := ex.bigW()
			a, b := ex.bigGet(st, args[1]), ex.bigGet(st, args[2])
			var r *Term
			switch op {
			case "Add":
				r = Add(a, b)
				// signed overflow: operands same sign, result different sign
				ovf := And(Eq(Slt(a, BV(w, 0)), Slt(b, BV(w, 0))), Not(Eq(Slt(r, BV(w, 0)), Slt(a, BV(w, 0)))))
				ex.boundIf(st, ovf, "big.Int Add exceeds bigwidth", site)
			case "Sub":
				r = Sub(a, b)
				ovf := And(Not(Eq(Slt(a, BV(w, 0)), Slt(b, BV(w, 0)))), Not(Eq(Slt(r, BV(w, 0)), Slt(a, BV(w, 0)))))
				ex.boundIf(st, ovf, "big.Int Sub exceeds bigwidth", site)
			case "Mul":
				r = Mul(a, b)
				// no-wrap: check in double width unless an operand is a small constant
				aw, bw := Sext(a, 2*w), Sext(b, 2*w)
				full := Mul(aw, bw)
				ex.boundIf(st, Not(Eq(Sext(r, 2*w), full)), "big.Int Mul exceeds bigwidth", site)
			case "And":
				r = Bin(OpBvAnd, a, b)
			case "Or":
				r = Bin(OpBvOr, a, b)
			case "Xor":
				r = Bin(OpBvXor, a, b)
			case "Quo", "Rem": // truncated (Go's / and %)
				ex.panicIf(st, Eq(b, BV(w, 0)), "big.Int division by zero", site)
				if op == "Quo" {
					r = Bin(OpBvSdiv, a, b)
				} else {
					r = Bin(OpBvSrem, a, b)
				}
			case "Div", "Mod": // Euclidean
				ex.panicIf(st, Eq(b, BV(w, 0)), "big.Int division by zero", site)
				if op == "Mod" && ex.bounds["bigmodcondsub"] > 0 && b.IsConst() {
					// stated bound: 0 <= a < 2·m, so a mod m is one conditional subtraction (no divider for the solver)
					st.assume(And(Not(Slt(a, BV(w, 0))), Slt(a, Add(b, b)))) // stated restriction (see harness assumptions)
					r = Ite(Slt(a, b), a, Sub(a, b))
					break
				}
				q := Bin(OpBvSdiv, a, b)
				m := Bin(OpBvSrem, a, b)
				negM := Slt(m, BV(w, 0))
				bNeg := Slt(b, BV(w, 0))
				if op == "Mod" {
					r = Ite(negM, Ite(bNeg, Sub(m, b), Add(m, b)), m)
				} else {
					r = Ite(negM, Ite(bNeg, Add(q, BV(w, 1)), Sub(q, BV(w, 1))), q)
				}
			}
			ex.bigSet(st, args[0], r)
			return args[0]
		}
	}
	for _, op := range []string{"Add", "Sub", "Mul", "And", "Or", "Xor", "Quo", "Rem", "Div", "Mod"} {
		reg("(*math/big.Int)."+op, arith(op))
	}
	reg("(*math/big.Int).Neg", func(ex *Exec, st *State, fn *ssa.Function, args []Value, site ssa.Instruction) Value {
		ex.bigSet(st, args[0], Un(OpBvNeg, ex.bigGet(st, args[1])))
		return args[0]
	})
	reg("(*math/big.Int).Abs", func(ex *Exec, st *State, fn *ssa.Function, args []Value, site ssa.Instruction) Value {
		ex.bigSet(st, args[0], absTerm(ex.bigGet(st, args[1])))
		return args[0]
	})
	reg("(*math/big.Int).Lsh", func(ex *Exec, st *State, fn *ssa.Function, args []Value, site ssa.Instruction) Value {
		w := ex.bigW()
		a := ex.bigGet(st, args[1])
		n := Zext(args[2].(*Term), w)
		if w < 64 {
			n = Extract(w-1, 0, args[2].(*Term))
		}
		r := Bin(OpBvShl, a, n)
		ex.boundIf(st, Not(Eq(Bin(OpBvAshr, r, n), a)), "big.Int Lsh exceeds bigwidth", site)
		ex.bigSet(st, args[0], r)
		return args[0]
	})
	reg("(*math/big.Int).Rsh", func(ex *Exec, st *State, fn *ssa.Function, args []Value, site ssa.Instruction) Value {
		w := ex.bigW()
		a := ex.bigGet(st, args[1])
		n := Zext(args[2].(*Term), w)
		ex.bigSet(st, args[0], Bin(OpBvAshr, a, n))
		return args[0]
	})
	reg("(*math/big.Int).BitLen", func(ex *Exec, st *State, fn *ssa.Function, args []Value, site ssa.Instruction) Value {
		a := absTerm(ex.bigGet(st, args[0]))
		r := i64(0)
		for i := 0; i < a.W; i++ {
			r = Ite(Eq(Extract(i, i, a), BV(1, 1)), i64(int64(i+1)), r)
		}
		return r
	})
	reg("(*math/big.Int).Bit", func(ex *Exec, st *State, fn *ssa.Function, args []Value, site ssa.Instruction) Value {
		a := ex.bigGet(st, args[0])
		i := args[1].(*Term)
		sh := Bin(OpBvLshr, a, Zext(i, a.W))
		return Zext(Extract(0, 0, sh), 64)
	})
	reg("(*math/big.Int).SetBytes", func(ex *Exec, st *State, fn *ssa.Function, args []Value, site ssa.Instruction) Value {
		w := ex.bigW()
		s := args[1].(*SliceV)
		bs := ex.byteTerms(st, s)
		if 8*len(bs) >= w {
			// only the low w-8 bits may be non-zero
			ex.boundIf(st, Not(Ule(s.Len, i64(int64(w/8-1)))), "big.Int SetBytes exceeds bigwidth", site)
		}
		// value = Σ_{j<len} b[j] · 256^(len-1-j)  (Horner with a length guard)
		acc := BV(w, 0)
		for j, b := range bs {
			in := Ult(i64(int64(j)), s.Len)
			step := Bin(OpBvOr, Bin(OpBvShl, acc, BV(w, 8)), Zext(b, w))
			acc = Ite(in, step, acc)
		}
		ex.bigSet(st, args[0], acc)
		return args[0]
	})
	reg("(*math/big.Int).Bytes", func(ex *Exec, st *State, fn *ssa.Function, args []Value, site ssa.Instruction) Value {
		w := ex.bigW()
		a := absTerm(ex.bigGet(st, args[0]))
		L := w / 8
		// number of leading zero bytes
		lz := i64(int64(L))
		for k := 0; k < L; k++ { // byte k (from least significant) non-zero ⇒ lz = L-1-k; iterate so that the highest wins
			b := Extract(8*k+7, 8*k, a)
			lz = Ite(Not(Eq(b, BV(8, 0))), i64(int64(L-1-k)), lz)
		}
		n := Sub(i64(int64(L)), lz)
		if a.IsConst() {
			bb := a.ConstBig().Bytes()
			return ex.bytesValue(st, append([]byte{}, bb...))
		}
		if k := ex.bounds["bigfixedbytes"]; k > 0 && 8*k <= w {
			// stated bound: the value needs exactly k bytes (no leading zero byte, nothing above); the short-key case
			// (probability 2^-8 per derived key) is C18's subject
			top := Extract(8*k-1, 8*k-8, a)
			// a restriction of the input space (like vsAssume), stated in the harness assumptions
			st.assume(Not(Eq(top, BV(8, 0))))
			if 8*k < w {
				st.assume(Eq(Bin(OpBvLshr, a, BV(w, uint64(8*k))), BV(w, 0)))
			}
			es := make([]Value, k)
			for j := 0; j < k; j++ {
				es[j] = Extract(8*(k-j)-1, 8*(k-j-1), a)
			}
			return ex.mkSliceFromElems(st, es)
		}
		shifted := Bin(OpBvShl, a, Mul(Zext(lz, w), BV(w, 8)))
		es := make([]Value, L)
		for j := 0; j < L; j++ {
			es[j] = Extract(w-1-8*j, w-8-8*j, shifted)
		}
		return &SliceV{Base: ex.newArray(st, es), Off: i64(0), Len: n, Cap: i64(int64(L))}
	})
	reg("(*math/big.Int).FillBytes", func(ex *Exec, st *State, fn *ssa.Function, args []Value, site ssa.Instruction) Value {
		w := ex.bigW()
		a := absTerm(ex.bigGet(st, args[0]))
		buf := args[1].(*SliceV)
		if !buf.Len.IsConst() {
			panic(unsupported("big.Int.FillBytes with symbolic buffer length"))
		}
		n := int(buf.Len.ConstU())
		if 8*n < w {
			ex.panicIf(st, Not(Eq(Bin(OpBvLshr, a, BV(w, uint64(8*n))), BV(w, 0))), "big.Int.FillBytes: value does not fit", site)
		}
		for j := 0; j < n; j++ {
			k := n - 1 - j // byte index from least significant
			var b *Term = BV(8, 0)
			if 8*k+7 < w {
				b = Extract(8*k+7, 8*k, a)
			}
			ex.sliceSet(st, buf, i64(int64(j)), b)
		}
		return buf
	})
	reg("(*math/big.Int).SetString", func(ex *Exec, st *State, fn *ssa.Function, args []Value, site ssa.Instruction) Value {
		s, ok := ex.concreteString(st, args[1].(*SliceV))
		base := args[2].(*Term)
		if !ok || !base.IsConst() {
			panic(unsupported("big.Int.SetString on symbolic input"))
		}
		v, good := new(big.Int).SetString(s, int(base.ConstS()))
		if !good {
			return &Agg{E: []Value{nilPtr, False}}
		}
		ex.bigSet(st, args[0], bigConst(ex.bigW(), v))
		return &Agg{E: []Value{args[0], True}}
	})
	reg("(*math/big.Int).Exp", func(ex *Exec, st *State, fn *ssa.Function, args []Value, site ssa.Instruction) Value {
		x, y := ex.bigGet(st, args[1]), ex.bigGet(st, args[2])
		if !x.IsConst() || !y.IsConst() {
			panic(unsupported("big.Int.Exp on symbolic operands"))
		}
		var m *big.Int
		if !isNilRef(args[3]) {
			mt := ex.bigGet(st, args[3])
			if !mt.IsConst() {
				panic(unsupported("big.Int.Exp with symbolic modulus"))
			}
			m = toSigned(mt.ConstBig(), mt.W)
		}
		r := new(big.Int).Exp(toSigned(x.ConstBig(), x.W), toSigned(y.ConstBig(), y.W), m)
		ex.bigSet(st, args[0], bigConst(ex.bigW(), r))
		return args[0]
	})
	text := func(ex *Exec, st *State, fn *ssa.Function, args []Value, site ssa.Instruction) Value {
		a := ex.bigGet(st, args[0])
		if a.IsConst() {
			return ex.strConst(toSigned(a.ConstBig(), a.W).Text(10))
		}
		return ex.bigDecimal(st, a, site)
	}
	reg("(*math/big.Int).String", text)
	// strconv decimal formatting of a symbolic machine integer: same contract as big.Int.Text(10) (fresh digits tied to
	// the value by the Horner equation); a negative symbolic value is a stated-bound event
	itoa := func(ex *Exec, st *State, fn *ssa.Function, args []Value, site ssa.Instruction) Value {
		a := args[0].(*Term)
		if len(args) > 1 {
			b := args[1].(*Term)
			if !b.IsConst() || b.ConstU() != 10 {
				panic(unsupported("strconv.Format* with base other than 10"))
			}
		}
		if a.IsConst() {
			return ex.strConst(strconv.FormatInt(a.ConstS(), 10))
		}
		// 18 digits fit a signed 64-bit Horner sum; larger values are a stated-bound event
		old, had := ex.bounds["bigdigits"]
		if !had || old == 0 || old > 18 {
			ex.bounds["bigdigits"] = 18
		}
		r := ex.bigDecimal(st, a, site)
		if had {
			ex.bounds["bigdigits"] = old
		} else {
			delete(ex.bounds, "bigdigits")
		}
		return r
	}
	reg("strconv.Itoa", itoa)
	reg("strconv.FormatInt", itoa)
	reg("(*math/big.Int).Text", func(ex *Exec, st *State, fn *ssa.Function, args []Value, site ssa.Instruction) Value {
		b := args[1].(*Term)
		if b.IsConst() && b.ConstU() == 16 {
			a := ex.bigGet(st, args[0])
			if !a.IsConst() {
				return ex.bigHex(st, a, site)
			}
		}
		if !b.IsConst() || b.ConstU() != 10 {
			a := ex.bigGet(st, args[0])
			if a.IsConst() && b.IsConst() {
				return ex.strConst(toSigned(a.ConstBig(), a.W).Text(int(b.ConstU())))
			}
			panic(unsupported("big.Int.Text with base other than 10 on symbolic value"))
		}
		return text(ex, st, fn, args, site)
	})
}

func isNilRef(v Value) bool {
	p, ok := v.(*PtrC)
	return ok && p.Obj == 0
}

// bigDecimal returns the decimal text of a non-negative symbolic value as the unique digit string d with
// Σ dᵢ·10ⁱ = value and no leading zero (the contract of big.Int.Text(10); digits are fresh variables constrained
// by that equation — existence and uniqueness of the decimal representation is the mathematical fact assumed).
func (ex *Exec) bigDecimal(st *State, a *Term, site ssa.Instruction) Value {
	w := a.W
	maxDigits := ex.bounds["bigdigits"]
	if maxDigits == 0 {
		maxDigits = 24
	}
	ex.boundIf(st, Slt(a, BV(w, 0)), "big.Int.Text of a negative symbolic value", site)
	pow := new(big.Int).Exp(big.NewInt(10), big.NewInt(int64(maxDigits)), nil)
	ex.boundIf(st, Not(Ult(a, bigConst(w, pow))), "big.Int.Text: value has more than bigdigits digits", site)
	// when the path condition fixes the number of digits (harnesses that case-split on it), use that constant: range
	// comparisons on the value only, decided by the solver; every other count must be refuted, otherwise n stays symbolic
	if ex.feasAlways && ex.solver != nil {
		live := -1
		for k := 1; k <= maxDigits; k++ {
			lo := new(big.Int).Exp(big.NewInt(10), big.NewInt(int64(k-1)), nil)
			hi := new(big.Int).Exp(big.NewInt(10), big.NewInt(int64(k)), nil)
			c := Ult(a, bigConst(w, hi))
			if k > 1 {
				c = And(c, Not(Ult(a, bigConst(w, lo))))
			}
			if ex.solver.Feasible(ex.feasTimeout, st.pcs, c) != "unsat" {
				if live >= 0 {
					live = -2
					break
				}
				live = k
			}
		}
		if live > 0 {
			k := live
			ds := make([]*Term, k)
			es := make([]Value, k)
			acc := BV(w, 0)
			c := True
			for i := 0; i < k; i++ {
				ds[i] = ex.nondet("dec.digit", 8)
				es[i] = ds[i]
				c = And(c, And(Ule(BV(8, '0'), ds[i]), Ule(ds[i], BV(8, '9'))))
				acc = Add(Mul(acc, BV(w, 10)), Zext(Sub(ds[i], BV(8, '0')), w))
			}
			c = And(c, Eq(acc, a))
			if k > 1 {
				c = And(c, Not(Eq(ds[0], BV(8, '0'))))
			}
			st.assume(c)
			return &SliceV{Base: ex.newArray(st, es), Off: i64(0), Len: i64(int64(k)), Cap: i64(int64(k))}
		}
	}
	n := ex.nondet("dec.len", 64)
	ds := make([]*Term, maxDigits) // ds[0] most significant of the n digits
	es := make([]Value, maxDigits)
	for i := range ds {
		ds[i] = ex.nondet("dec.digit", 8)
		es[i] = ds[i]
	}
	c := And(Ule(i64(1), n), Ule(n, i64(int64(maxDigits))))
	// Horner over the first n digits
	acc := BV(w, 0)
	for i := 0; i < maxDigits; i++ {
		in := Ult(i64(int64(i)), n)
		d := ds[i]
		c = And(c, Or(Not(in), And(Ule(BV(8, '0'), d), Ule(d, BV(8, '9')))))
		step := Add(Mul(acc, BV(w, 10)), Zext(Sub(d, BV(8, '0')), w))
		acc = Ite(in, step, acc)
	}
	c = And(c, Eq(acc, a))
	c = And(c, Or(Eq(n, i64(1)), Not(Eq(ds[0], BV(8, '0')))))
	st.assume(c)
	return &SliceV{Base: ex.newArray(st, es), Off: i64(0), Len: n, Cap: n}
}

var _ = types.Typ

// bigHex returns the minimal lower-case hexadecimal text of a non-negative symbolic value ("0" for zero).
func (ex *Exec) bigHex(st *State, a *Term, site ssa.Instruction) Value {
	w := a.W
	ex.boundIf(st, Slt(a, BV(w, 0)), "big.Int.Text(16) of a negative symbolic value", site)
	L := w / 4
	lz := i64(int64(L))
	for k := 0; k < L; k++ {
		nib := Extract(4*k+3, 4*k, a)
		lz = Ite(Not(Eq(nib, BV(4, 0))), i64(int64(L-1-k)), lz)
	}
	// zero renders as one digit
	lz = Ite(Eq(lz, i64(int64(L))), i64(int64(L-1)), lz)
	n := Sub(i64(int64(L)), lz)
	shifted := Bin(OpBvShl, a, Mul(Zext(lz, w), BV(w, 4)))
	es := make([]Value, L)
	for j := 0; j < L; j++ {
		nib := Zext(Extract(w-1-4*j, w-4-4*j, shifted), 8)
		es[j] = Ite(Ult(nib, BV(8, 10)), Add(nib, BV(8, '0')), Add(nib, BV(8, 'a'-10)))
	}
	return &SliceV{Base: ex.newArray(st, es), Off: i64(0), Len: n, Cap: n}
}
