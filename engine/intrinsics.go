package main

// Intrinsics: the harness vocabulary (vs*), synchronisation primitives, runtime/assembly leaf functions and
// opaque models of formatting. Everything else is executed from its real SSA body.

import (
	"fmt"
	"os"
	"go/types"
	"net"
	"strings"

	"golang.org/x/tools/go/ssa"
)

type intrinsic func(ex *Exec, st *State, fn *ssa.Function, args []Value, site ssa.Instruction) Value

var intrinsics = map[string]intrinsic{}

func lookupIntrinsic(fn *ssa.Function) (intrinsic, bool) {
	name := fn.Name()
	if strings.HasPrefix(name, "vs") {
		if f, ok := vsIntrinsics[name]; ok {
			return f, true
		}
	}
	full := fn.String()
	if f, ok := intrinsics[full]; ok {
		return f, true
	}
	// generic instantiations: strip type arguments
	if i := strings.IndexByte(full, '['); i >= 0 {
		if f, ok := intrinsics[full[:i]]; ok {
			return f, true
		}
	}
	return nil, false
}

func (ex *Exec) argString(st *State, v Value) string {
	s, ok := ex.concreteString(st, v.(*SliceV))
	if !ok {
		panic(unsupported("harness vocabulary needs a constant string argument"))
	}
	return s
}

func (ex *Exec) argInt(v Value) int {
	t := v.(*Term)
	if !t.IsConst() {
		panic(unsupported("harness vocabulary needs a constant integer argument"))
	}
	return int(t.ConstS())
}

func (ex *Exec) nondet(site string, w int) *Term {
	if ex.fresh == nil {
		ex.fresh = map[string]int{}
	}
	n := ex.fresh[site]
	ex.fresh[site] = n + 1
	name := site
	if n > 0 {
		name = fmt.Sprintf("%s#%d", site, n)
	}
	t := Var(name, w)
	ex.nondets = append(ex.nondets, NondetVar{t.Name, t})
	return t
}

var vsIntrinsics map[string]intrinsic

func init() {
	nd := func(w int) intrinsic {
		return func(ex *Exec, st *State, fn *ssa.Function, args []Value, site ssa.Instruction) Value {
			return ex.nondet(ex.argString(st, args[0]), w)
		}
	}
	vsIntrinsics = map[string]intrinsic{
		"vsNondetU8":  nd(8),
		"vsNondetU16": nd(16),
		"vsNondetU32": nd(32),
		"vsNondetU64": nd(64),
		"vsNondetInt": nd(64),
		"vsNondetI64": nd(64),
		"vsNondetI32": nd(32),
		"vsNondetBool": func(ex *Exec, st *State, fn *ssa.Function, args []Value, site ssa.Instruction) Value {
			return ex.nondet(ex.argString(st, args[0]), 0)
		},
		"vsNondetBytes": func(ex *Exec, st *State, fn *ssa.Function, args []Value, site ssa.Instruction) Value {
			n := ex.argInt(args[0])
			name := ex.argString(st, args[1])
			es := make([]Value, n)
			for i := range es {
				es[i] = ex.nondet(fmt.Sprintf("%s[%d]", name, i), 8)
			}
			return ex.mkSliceFromElems(st, es)
		},
		// vsNondetBytesUpTo(max, name): a slice of symbolic length ≤ max
		"vsNondetBytesUpTo": func(ex *Exec, st *State, fn *ssa.Function, args []Value, site ssa.Instruction) Value {
			n := ex.argInt(args[0])
			name := ex.argString(st, args[1])
			es := make([]Value, n)
			for i := range es {
				es[i] = ex.nondet(fmt.Sprintf("%s[%d]", name, i), 8)
			}
			l := ex.nondet(name+".len", 64)
			st.assume(Ule(l, i64(int64(n))))
			return &SliceV{Base: ex.newArray(st, es), Off: i64(0), Len: l, Cap: i64(int64(n))}
		},
		"vsNondetString": func(ex *Exec, st *State, fn *ssa.Function, args []Value, site ssa.Instruction) Value {
			n := ex.argInt(args[0])
			name := ex.argString(st, args[1])
			es := make([]Value, n)
			for i := range es {
				es[i] = ex.nondet(fmt.Sprintf("%s[%d]", name, i), 8)
			}
			if n == 0 {
				return ex.strConst("")
			}
			return ex.mkSliceFromElems(st, es)
		},
		"vsNondetStringUpTo": func(ex *Exec, st *State, fn *ssa.Function, args []Value, site ssa.Instruction) Value {
			n := ex.argInt(args[0])
			name := ex.argString(st, args[1])
			es := make([]Value, n)
			for i := range es {
				es[i] = ex.nondet(fmt.Sprintf("%s[%d]", name, i), 8)
			}
			l := ex.nondet(name+".len", 64)
			st.assume(Ule(l, i64(int64(n))))
			return &SliceV{Base: ex.newArray(st, es), Off: i64(0), Len: l, Cap: l}
		},
		"vsAssume": func(ex *Exec, st *State, fn *ssa.Function, args []Value, site ssa.Instruction) Value {
			st.assume(args[0].(*Term))
			return nil
		},
		// vsProvablyDifferent(a, b): concrete true iff the byte strings differ in every model of the path condition
		"vsProvablyDifferent": func(ex *Exec, st *State, fn *ssa.Function, args []Value, site ssa.Instruction) Value {
			eq := ex.strEq(st, args[0].(*SliceV), args[1].(*SliceV))
			if eq.IsConst() {
				return Not(eq)
			}
			if st.known(eq) == 0 {
				return True
			}
			if r := RunPortfolio(60, And(st.pcTerm(), eq), nil, ""); r.Verdict == "unsat" {
				return True
			}
			return False
		},
		// vsProvablyEqual(a, b): concrete true iff the two byte strings are equal in every model of the path condition
		// (syntactically, or by a solver proof); concrete false otherwise ("not known to be equal", NOT "different").
		"vsProvablyEqual": func(ex *Exec, st *State, fn *ssa.Function, args []Value, site ssa.Instruction) Value {
			eq := ex.strEq(st, args[0].(*SliceV), args[1].(*SliceV))
			if eq.IsConst() {
				return eq
			}
			if st.known(eq) == 1 {
				return True
			}
			q := And(st.pcTerm(), Not(eq))
			if r := RunPortfolio(60, q, nil, ""); r.Verdict == "unsat" {
				return True
			}
			return False
		},
		"vsAssert": func(ex *Exec, st *State, fn *ssa.Function, args []Value, site ssa.Instruction) Value {
			id := ex.argString(st, args[1])
			ex.asserts = append(ex.asserts, Obligation{ID: id, PC: st.pcTerm(), Cond: args[0].(*Term), Pos: ex.pos(site), Case: ex.curCase})
			return nil
		},
		"vsReach": func(ex *Exec, st *State, fn *ssa.Function, args []Value, site ssa.Instruction) Value {
			id := ex.argString(st, args[0])
			ex.reaches = append(ex.reaches, Obligation{ID: id, PC: st.pcTerm(), Cond: True, Pos: ex.pos(site), Case: ex.curCase})
			return nil
		},
		"vsFork": func(ex *Exec, st *State, fn *ssa.Function, args []Value, site ssa.Instruction) Value {
			n := ex.argInt(args[0])
			label := ex.argString(st, args[1])
			if ex.forkPos >= len(ex.forkChoices) {
				ex.forkChoices = append(ex.forkChoices, 0)
				ex.forkSizes = append(ex.forkSizes, n)
				ex.forkLabels = append(ex.forkLabels, label)
			}
			ex.forkSizes[ex.forkPos] = n
			ex.forkLabels[ex.forkPos] = label
			k := ex.forkChoices[ex.forkPos]
			ex.forkPos++
			if ex.curCase != "" {
				ex.curCase += ","
			}
			ex.curCase += fmt.Sprintf("%s=%d", label, k)
			return i64(int64(k))
		},
		"vsBound": func(ex *Exec, st *State, fn *ssa.Function, args []Value, site ssa.Instruction) Value {
			name := ex.argString(st, args[0])
			v, ok := ex.bounds[name]
			if !ok {
				panic(unsupported("vsBound: no bound named " + name))
			}
			return i64(int64(v))
		},
		"vsObserve": func(ex *Exec, st *State, fn *ssa.Function, args []Value, site ssa.Instruction) Value {
			name := ex.argString(st, args[0])
			ex.observes = append(ex.observes, NondetVar{name, args[1].(*Term)})
			return nil
		},
		"vsObserveBytes": func(ex *Exec, st *State, fn *ssa.Function, args []Value, site ssa.Instruction) Value {
			name := ex.argString(st, args[0])
			s := args[1].(*SliceV)
			ex.observes = append(ex.observes, NondetVar{name + ".len", s.Len})
			for i, b := range ex.byteTerms(st, s) {
				ex.observes = append(ex.observes, NondetVar{fmt.Sprintf("%s[%d]", name, i), b})
			}
			return nil
		},
		// vsUFU64(name, args...) uint64
		"vsUFU64": func(ex *Exec, st *State, fn *ssa.Function, args []Value, site ssa.Instruction) Value {
			name := ex.argString(st, args[0])
			var ts []*Term
			for _, e := range ex.elems(st, args[1].(*SliceV)) {
				ts = append(ts, e.(*Term))
			}
			return UF(name, 64, ts...)
		},
		// vsUFBytes(name, outLen, args ...[]byte) []byte : one UF per output over the concatenated (fixed-length) inputs
		"vsUFBytes": func(ex *Exec, st *State, fn *ssa.Function, args []Value, site ssa.Instruction) Value {
			return ex.ufBytes(st, args, false)
		},
		// vsUFBytesInj: the same, assumed injective on the arguments that occur in the run (collision freeness, A1)
		"vsUFBytesInj": func(ex *Exec, st *State, fn *ssa.Function, args []Value, site ssa.Instruction) Value {
			return ex.ufBytes(st, args, true)
		},
		"vsRunUntilBlocked": func(ex *Exec, st *State, fn *ssa.Function, args []Value, site ssa.Instruction) Value {
			return ex.runUntilBlocked(st, args[0], site)
		},
		// vsSpawned(): number of goroutines started so far; vsRunSpawned(k): run the k-th one (from its start) until it
		// returns or blocks, like vsRunUntilBlocked; true iff it returned
		"vsSpawned": func(ex *Exec, st *State, fn *ssa.Function, args []Value, site ssa.Instruction) Value {
			return i64(int64(len(ex.spawned)))
		},
		"vsRunSpawned": func(ex *Exec, st *State, fn *ssa.Function, args []Value, site ssa.Instruction) Value {
			k := ex.argInt(args[0])
			if k < 0 || k >= len(ex.spawned) {
				panic(unsupported("vsRunSpawned: no such goroutine"))
			}
			return ex.runUntilBlockedArgs(st, ex.spawned[k].fn, ex.spawned[k].args, site)
		},
		// vsSetLockHook(f func(lock string)): f runs before every Lock/RLock acquisition (a scheduling point at which the
		// harness may let another thread's requests run); not re-entered from inside itself
		"vsSetLockHook": func(ex *Exec, st *State, fn *ssa.Function, args []Value, site ssa.Instruction) Value {
			ex.lockHook = args[0]
			return nil
		},
		// vsTrack(p, name): accesses to the fields of the object p points to are logged with the locks held
		"vsTrack": func(ex *Exec, st *State, fn *ssa.Function, args []Value, site ssa.Instruction) Value {
			name := ex.argString(st, args[1])
			if ic, ok := args[0].(*IfaceC); ok {
				if pc, ok := ic.V.(*PtrC); ok && pc.Obj != 0 {
					if ex.tracked == nil {
						ex.tracked = map[int]string{}
					}
					ex.tracked[pc.Obj] = name
				}
			}
			return nil
		},
		"vsPanicsOff": func(ex *Exec, st *State, fn *ssa.Function, args []Value, site ssa.Instruction) Value {
			return nil
		},
		// vsLockHeld(ptr to sync.Mutex/RWMutex) bool
		"vsLockHeld": func(ex *Exec, st *State, fn *ssa.Function, args []Value, site ssa.Instruction) Value {
			return Not(Eq(ex.load(st, mutexStatePtr(args[0])).(*Term), BV(32, 0)))
		},
		"vsAnyLockHeld": func(ex *Exec, st *State, fn *ssa.Function, args []Value, site ssa.Instruction) Value {
			return ex.anyLockHeld(st)
		},
	}

	nop := func(ex *Exec, st *State, fn *ssa.Function, args []Value, site ssa.Instruction) Value { return nil }

	// ------------------------------------------------------------ sync
	intrinsics["(*sync.Mutex).Lock"] = func(ex *Exec, st *State, fn *ssa.Function, args []Value, site ssa.Instruction) Value {
		ex.lockOp(st, args[0], site, "Lock")
		return nil
	}
	intrinsics["(*sync.Mutex).Unlock"] = func(ex *Exec, st *State, fn *ssa.Function, args []Value, site ssa.Instruction) Value {
		ex.lockOp(st, args[0], site, "Unlock")
		return nil
	}
	intrinsics["(*sync.Mutex).TryLock"] = func(ex *Exec, st *State, fn *ssa.Function, args []Value, site ssa.Instruction) Value {
		p := mutexStatePtr(args[0])
		cur := ex.load(st, p).(*Term)
		free := Eq(cur, BV(32, 0))
		ex.store(st, p, Ite(free, BV(32, 1), cur))
		return free
	}
	intrinsics["(*sync.RWMutex).Lock"] = intrinsics["(*sync.Mutex).Lock"]
	intrinsics["(*sync.RWMutex).Unlock"] = intrinsics["(*sync.Mutex).Unlock"]
	intrinsics["(*sync.RWMutex).RLock"] = func(ex *Exec, st *State, fn *ssa.Function, args []Value, site ssa.Instruction) Value {
		ex.lockOp(st, args[0], site, "RLock")
		return nil
	}
	intrinsics["(*sync.RWMutex).RUnlock"] = func(ex *Exec, st *State, fn *ssa.Function, args []Value, site ssa.Instruction) Value {
		ex.lockOp(st, args[0], site, "RUnlock")
		return nil
	}
	// sync.Pool by contract: Get hands back the object most recently Put into this pool if there is one (the adversarial
	// and, on one goroutine, the usual case: it exposes results that still alias a recycled object), otherwise New().
	// Pools are keyed by their (concrete) address; a pool reached through a symbolic pointer always allocates.
	intrinsics["(*sync.Pool).Put"] = func(ex *Exec, st *State, fn *ssa.Function, args []Value, site ssa.Instruction) Value {
		if pc, ok := args[0].(*PtrC); ok && pc.Obj != 0 && len(pc.Path) == 0 {
			if ex.pools == nil {
				ex.pools = map[int][]Value{}
			}
			ex.pools[pc.Obj] = append(ex.pools[pc.Obj], args[1])
		}
		return nil
	}
	intrinsics["(*sync.Pool).Get"] = func(ex *Exec, st *State, fn *ssa.Function, args []Value, site ssa.Instruction) Value {
		if pc, ok := args[0].(*PtrC); ok && pc.Obj != 0 && len(pc.Path) == 0 {
			if l := ex.pools[pc.Obj]; len(l) > 0 {
				v := l[len(l)-1]
				ex.pools[pc.Obj] = l[:len(l)-1]
				return v
			}
		}
		// Pool{noCopy; local; localSize; victim; victimSize; New func() any}
		pv := ex.load(st, args[0]).(*Agg)
		newf := pv.E[len(pv.E)-1]
		if isNilFunc(newf) {
			return &IfaceC{}
		}
		return ex.invokeFuncValue(st, newf, nil, site)
	}
	// sync.Map by contract on the engine's map model (entries guarded by the path condition under which they were
	// stored, so the model is path-sensitive although it lives beside the state); keyed by the map's concrete address
	syncMapOf := func(ex *Exec, v Value) int {
		pc, ok := v.(*PtrC)
		if !ok || pc.Obj == 0 {
			panic(unsupported("sync.Map reached through a symbolic pointer"))
		}
		if ex.syncMaps == nil {
			ex.syncMaps = map[string]*MapVal{}
		}
		return pc.Obj
	}
	anyT := types.Universe.Lookup("any").Type()
	smKey := func(ex *Exec, v Value) string {
		pc := v.(*PtrC)
		return fmt.Sprintf("%d/%v", syncMapOf(ex, v), pc.Path)
	}
	smGet := func(ex *Exec, v Value) *MapVal {
		k := smKey(ex, v)
		if m := ex.syncMaps[k]; m != nil {
			return m
		}
		m := &MapVal{KeyT: anyT, ValT: anyT}
		ex.syncMaps[k] = m
		return m
	}
	smPut := func(ex *Exec, st *State, v Value, key, val Value, present *Term) {
		m := smGet(ex, v)
		r := &MapVal{KeyT: anyT, ValT: anyT, Entries: append([]MapEntry{}, m.Entries...)}
		r.Entries = append(r.Entries, MapEntry{G: st.pcTerm(), Present: present, K: ex.mapKey(st, key), V: val})
		ex.syncMaps[smKey(ex, v)] = r
	}
	intrinsics["(*sync.Map).Load"] = func(ex *Exec, st *State, fn *ssa.Function, args []Value, site ssa.Instruction) Value {
		v, present := ex.mapLookup(st, smGet(ex, args[0]), args[1])
		return &Agg{E: []Value{v, present}}
	}
	intrinsics["(*sync.Map).Store"] = func(ex *Exec, st *State, fn *ssa.Function, args []Value, site ssa.Instruction) Value {
		smPut(ex, st, args[0], args[1], args[2], True)
		return nil
	}
	intrinsics["(*sync.Map).Delete"] = func(ex *Exec, st *State, fn *ssa.Function, args []Value, site ssa.Instruction) Value {
		smPut(ex, st, args[0], args[1], &IfaceC{}, False)
		return nil
	}
	intrinsics["(*sync.Map).LoadOrStore"] = func(ex *Exec, st *State, fn *ssa.Function, args []Value, site ssa.Instruction) Value {
		v, present := ex.mapLookup(st, smGet(ex, args[0]), args[1])
		if present.IsFalse() {
			smPut(ex, st, args[0], args[1], args[2], True)
			return &Agg{E: []Value{args[2], False}}
		}
		if present.IsTrue() {
			return &Agg{E: []Value{v, True}}
		}
		m := smGet(ex, args[0])
		r := &MapVal{KeyT: anyT, ValT: anyT, Entries: append([]MapEntry{}, m.Entries...)}
		r.Entries = append(r.Entries, MapEntry{G: And(st.pcTerm(), Not(present)), Present: True, K: ex.mapKey(st, args[1]), V: args[2]})
		ex.syncMaps[smKey(ex, args[0])] = r
		return &Agg{E: []Value{mergeValue(present, v, args[2]), present}}
	}
	intrinsics["(*sync.WaitGroup).Add"] = nop
	intrinsics["(*sync.WaitGroup).Done"] = nop
	intrinsics["(*sync.WaitGroup).Wait"] = func(ex *Exec, st *State, fn *ssa.Function, args []Value, site ssa.Instruction) Value {
		held := ex.heldLocks(st)
		ex.waits = append(ex.waits, Event{Kind: "WaitGroup.Wait", PC: st.pcTerm(), Pos: ex.pos(site), Case: ex.curCase, Msg: held})
		if held != "" {
			// waiting for other goroutines while holding a lock: reported as blocking-while-locked (the waited-for side
			// may need that lock); execution continues
			ex.blocks = append(ex.blocks, Event{Kind: "WaitGroup.Wait while holding a lock", PC: st.pcTerm(), Pos: ex.pos(site), Case: ex.curCase, Msg: held})
		}
		return nil
	}
	intrinsics["(*sync.Once).Do"] = func(ex *Exec, st *State, fn *ssa.Function, args []Value, site ssa.Instruction) Value {
		// Once{done atomic.Uint32/uint32; m Mutex}: field 0 is done
		p := extendPath(args[0], PathEl{Field: 0})
		cur := ex.load(st, p)
		var doneT *Term
		var set func(s2 *State)
		switch c := cur.(type) {
		case *Term:
			doneT = Not(Eq(c, BV(c.W, 0)))
			set = func(s2 *State) { ex.store(s2, p, BV(c.W, 1)) }
		case *Agg: // atomic.Uint32{_ noCopy; v uint32}
			vp := extendPath(p, PathEl{Field: len(c.E) - 1})
			v := ex.load(st, vp).(*Term)
			doneT = Not(Eq(v, BV(v.W, 0)))
			set = func(s2 *State) { ex.store(s2, vp, BV(v.W, 1)) }
		}
		ex.forkN(st, nil, []*Term{Not(doneT), doneT}, func(i int, s2 *State, _ *Frame) Value {
			if i == 0 {
				set(s2)
				ex.invokeFuncValue(s2, args[1], nil, site)
			}
			return nil
		})
		return nil
	}

	// ------------------------------------------------------------ sync/atomic (sequential semantics)
	for _, w := range []struct {
		n string
		w int
	}{{"Int32", 32}, {"Uint32", 32}, {"Int64", 64}, {"Uint64", 64}, {"Uintptr", 64}} {
		w := w
		intrinsics["sync/atomic.Load"+w.n] = func(ex *Exec, st *State, fn *ssa.Function, args []Value, site ssa.Instruction) Value {
			return ex.load(st, args[0])
		}
		intrinsics["sync/atomic.Store"+w.n] = func(ex *Exec, st *State, fn *ssa.Function, args []Value, site ssa.Instruction) Value {
			ex.store(st, args[0], args[1])
			return nil
		}
		intrinsics["sync/atomic.Add"+w.n] = func(ex *Exec, st *State, fn *ssa.Function, args []Value, site ssa.Instruction) Value {
			v := Add(ex.load(st, args[0]).(*Term), args[1].(*Term))
			ex.store(st, args[0], v)
			return v
		}
		intrinsics["sync/atomic.Swap"+w.n] = func(ex *Exec, st *State, fn *ssa.Function, args []Value, site ssa.Instruction) Value {
			old := ex.load(st, args[0])
			ex.store(st, args[0], args[1])
			return old
		}
		intrinsics["sync/atomic.CompareAndSwap"+w.n] = func(ex *Exec, st *State, fn *ssa.Function, args []Value, site ssa.Instruction) Value {
			cur := ex.load(st, args[0]).(*Term)
			eq := Eq(cur, args[1].(*Term))
			ex.store(st, args[0], Ite(eq, args[2].(*Term), cur))
			return eq
		}
	}

	// ------------------------------------------------------------ runtime and assembly leaves
	intrinsics["runtime/debug.FreeOSMemory"] = nop
	intrinsics["runtime.KeepAlive"] = nop
	intrinsics["runtime.SetFinalizer"] = nop
	intrinsics["runtime.Gosched"] = nop
	intrinsics["runtime.GC"] = nop
	intrinsics["internal/race.Enabled"] = nop
	intrinsics["internal/bytealg.IndexByte"] = func(ex *Exec, st *State, fn *ssa.Function, args []Value, site ssa.Instruction) Value {
		return ex.indexByte(st, args[0].(*SliceV), args[1].(*Term))
	}
	intrinsics["internal/bytealg.IndexByteString"] = intrinsics["internal/bytealg.IndexByte"]
	intrinsics["internal/bytealg.Equal"] = func(ex *Exec, st *State, fn *ssa.Function, args []Value, site ssa.Instruction) Value {
		return ex.strEq(st, args[0].(*SliceV), args[1].(*SliceV))
	}
	intrinsics["internal/bytealg.Compare"] = func(ex *Exec, st *State, fn *ssa.Function, args []Value, site ssa.Instruction) Value {
		a, b := args[0].(*SliceV), args[1].(*SliceV)
		lt := ex.strLess(st, a, b)
		eq := ex.strEq(st, a, b)
		return Ite(lt, BV(64, ^uint64(0)), Ite(eq, i64(0), i64(1)))
	}
	intrinsics["internal/bytealg.CountString"] = func(ex *Exec, st *State, fn *ssa.Function, args []Value, site ssa.Instruction) Value {
		s := args[0].(*SliceV)
		c := args[1].(*Term)
		n := i64(0)
		for i, b := range ex.byteTerms(st, s) {
			n = Add(n, Ite(And(Ult(i64(int64(i)), s.Len), Eq(b, c)), i64(1), i64(0)))
		}
		return n
	}
	intrinsics["internal/bytealg.Count"] = intrinsics["internal/bytealg.CountString"]
	intrinsics["internal/bytealg.MakeNoZero"] = func(ex *Exec, st *State, fn *ssa.Function, args []Value, site ssa.Instruction) Value {
		n := args[0].(*Term)
		if !n.IsConst() {
			panic(unsupported("MakeNoZero with symbolic length"))
		}
		es := make([]Value, n.ConstU())
		for i := range es {
			es[i] = BV(8, 0)
		}
		return ex.mkSliceFromElems(st, es)
	}
	intrinsics["internal/stringslite.Index"] = nil
	delete(intrinsics, "internal/stringslite.Index")
	intrinsics["(*strings.Builder).String"] = func(ex *Exec, st *State, fn *ssa.Function, args []Value, site ssa.Instruction) Value {
		// Builder{addr *Builder; buf []byte}
		buf := ex.load(st, extendPath(args[0], PathEl{Field: 1})).(*SliceV)
		es := ex.elems(st, buf)
		if len(es) == 0 {
			return ex.strConst("")
		}
		return &SliceV{Base: ex.newArray(st, es), Off: i64(0), Len: buf.Len, Cap: buf.Len}
	}
	intrinsics["(*strings.Builder).copyCheck"] = nop
	intrinsics["(*strings.Builder).grow"] = nop
	intrinsics["(*strings.Builder).Grow"] = nop
	intrinsics["unsafe.String"] = nil
	delete(intrinsics, "unsafe.String")
	intrinsics["strings.Clone"] = func(ex *Exec, st *State, fn *ssa.Function, args []Value, site ssa.Instruction) Value {
		return args[0]
	}
	intrinsics["internal/stringslite.Clone"] = intrinsics["strings.Clone"]
	intrinsics["internal/godebug.(*Setting).Value"] = func(ex *Exec, st *State, fn *ssa.Function, args []Value, site ssa.Instruction) Value {
		return ex.strConst("")
	}
	intrinsics["(*internal/godebug.Setting).Value"] = intrinsics["internal/godebug.(*Setting).Value"]
	intrinsics["(*internal/godebug.Setting).IncNonDefault"] = nop

	// ------------------------------------------------------------ formatting / errors: opaque
	intrinsics["fmt.Errorf"] = func(ex *Exec, st *State, fn *ssa.Function, args []Value, site ssa.Instruction) Value {
		return ex.opaqueError(st, "fmt.Errorf@"+ex.pos(site))
	}
	intrinsics["fmt.Sprintf"] = func(ex *Exec, st *State, fn *ssa.Function, args []Value, site ssa.Instruction) Value {
		return ex.sprintf(st, args, site)
	}
	intrinsics["fmt.Sprint"] = func(ex *Exec, st *State, fn *ssa.Function, args []Value, site ssa.Instruction) Value {
		return ex.strConst("<fmt.Sprint>")
	}
	intrinsics["fmt.Sprintln"] = func(ex *Exec, st *State, fn *ssa.Function, args []Value, site ssa.Instruction) Value {
		return ex.strConst("<fmt.Sprintln>")
	}
	intrinsics["fmt.Println"] = func(ex *Exec, st *State, fn *ssa.Function, args []Value, site ssa.Instruction) Value {
		return &Agg{E: []Value{i64(0), &IfaceC{}}}
	}
	intrinsics["fmt.Printf"] = intrinsics["fmt.Println"]
	intrinsics["fmt.Print"] = intrinsics["fmt.Println"]
	intrinsics["github.com/massnetorg/mass-core/logging.CPrint"] = nop
	intrinsics["github.com/massnetorg/mass-core/logging.VPrint"] = nop
	intrinsics["net.ParseIP"] = func(ex *Exec, st *State, fn *ssa.Function, args []Value, site ssa.Instruction) Value {
		if str, ok := ex.concreteString(st, args[0].(*SliceV)); ok {
			return ex.bytesValue(st, net.ParseIP(str))
		}
		if ov, ok := ex.overrides["net.ParseIP#symbolic"]; ok {
			return ex.callFunction(st, ov, args, site, len(ex.ctx)+1)
		}
		panic(unsupported("net.ParseIP on a symbolic string without a #symbolic override"))
	}
	intrinsics["time.Now"] = func(ex *Exec, st *State, fn *ssa.Function, args []Value, site ssa.Instruction) Value {
		// Time{wall uint64; ext int64; loc *Location}: arbitrary instant (monotonicity is added by harness stubs when needed)
		return &Agg{E: []Value{ex.nondet("time.Now.wall", 64), ex.nondet("time.Now.ext", 64), nilPtr}}
	}
}

func (ex *Exec) invokeFuncValue(st *State, f Value, args []Value, site ssa.Instruction) Value {
	as := alts(f)
	var guards []*Term
	var live []*FuncC
	for _, a := range as {
		fc := a.V.(*FuncC)
		if fc.Fn == nil {
			continue
		}
		guards = append(guards, a.G)
		live = append(live, fc)
	}
	if len(live) == 1 {
		guards[0] = True
	}
	return ex.forkN(st, nil, guards, func(i int, s2 *State, _ *Frame) Value {
		fc := live[i]
		if len(fc.Bind) > 0 {
			return ex.callClosure(s2, fc, args, site, len(ex.ctx)+1)
		}
		return ex.callFunction(s2, fc.Fn, args, site, len(ex.ctx)+1)
	})
}

func mutexStatePtr(p Value) Value {
	// sync.Mutex{state int32; sema uint32}; sync.RWMutex{w Mutex; ...}: callers pass the right pointer
	return extendPath(p, PathEl{Field: 0})
}

type lockRef struct {
	ptr  Value
	name string
	rw   bool
}

func lockName(site ssa.Instruction) string {
	var recv ssa.Value
	switch c := site.(type) {
	case *ssa.Call:
		if len(c.Call.Args) > 0 {
			recv = c.Call.Args[0]
		}
	case *ssa.Defer:
		if len(c.Call.Args) > 0 {
			recv = c.Call.Args[0]
		}
	}
	if fa, ok := recv.(*ssa.FieldAddr); ok {
		st := fa.X.Type().Underlying().(*types.Pointer).Elem()
		name := st.String()
		if i := strings.LastIndex(name, "/"); i >= 0 {
			name = name[i+1:]
		}
		return name + "." + st.Underlying().(*types.Struct).Field(fa.Field).Name()
	}
	if recv != nil {
		return recv.Name() + ":" + recv.Type().String()
	}
	return "lock"
}

func ptrKey(p Value) string {
	var sb strings.Builder
	for _, a := range alts(p) {
		pc := a.V.(*PtrC)
		fmt.Fprintf(&sb, "%d", pc.Obj)
		for _, el := range pc.Path {
			if el.Idx != nil {
				fmt.Fprintf(&sb, "[%d]", el.Idx.ID)
			} else {
				fmt.Fprintf(&sb, ".%d", el.Field)
			}
		}
		sb.WriteString("|")
	}
	return sb.String()
}

// lockOp models Mutex/RWMutex on the struct's own fields: Mutex.state (field 0) = 1 when write-held;
// RWMutex: w.state (field 0 → field 0) = 1 when write-held, readerSem-adjacent field 2 used as reader count.
func (ex *Exec) lockOp(st *State, p Value, site ssa.Instruction, op string) {
	if st.dead() {
		return
	}
	ex.panicIf(st, nilCond(p), "nil mutex", site)
	if st.dead() {
		return
	}
	p = dropNil(p)
	isRW := false
	if v, ok := ex.load(st, p).(*Agg); ok {
		if _, ok := v.E[0].(*Agg); ok {
			isRW = true
		}
	}
	var wp, rp Value
	if isRW {
		wp = extendPath(extendPath(p, PathEl{Field: 0}), PathEl{Field: 0})
		rp = extendPath(p, PathEl{Field: 2}) // readerSem uint32 used as reader count
	} else {
		wp = extendPath(p, PathEl{Field: 0})
	}
	name := lockName(site)
	key := ptrKey(p)
	if _, ok := ex.locks[key]; !ok {
		ex.locks[key] = &lockRef{ptr: p, name: name, rw: isRW}
		ex.lockOrder = append(ex.lockOrder, key)
	}
	w := ex.load(st, wp).(*Term)
	held := Not(Eq(w, BV(32, 0)))
	var r *Term
	readers := False
	if isRW {
		r = ex.load(st, rp).(*Term)
		readers = Not(Eq(r, BV(32, 0)))
	}
	if (op == "Lock" || op == "RLock") && ex.lockHook != nil && !ex.inLockHook && !isNilFunc(ex.lockHook) {
		ex.inLockHook = true
		ex.invokeFuncValue(st, ex.lockHook, []Value{ex.strConst(name)}, site)
		ex.inLockHook = false
		if st.dead() {
			return
		}
		// re-read the lock state: the hook may have run other critical sections
		w = ex.load(st, wp).(*Term)
		held = Not(Eq(w, BV(32, 0)))
		if isRW {
			r = ex.load(st, rp).(*Term)
			readers = Not(Eq(r, BV(32, 0)))
		}
	}
	ex.lockEvents = append(ex.lockEvents, LockEvent{Op: op, Lock: ex.locks[key].name, Pos: ex.pos(site), PC: st.pcTerm(), Held: ex.heldLocks(st), Case: ex.curCase})
	switch op {
	case "Lock":
		ex.blockIf(st, Or(held, readers), "self-deadlock: Lock of "+name+" while already held by this thread", site)
		if st.dead() {
			return
		}
		ex.store(st, wp, BV(32, 1))
	case "Unlock":
		ex.panicIf(st, Not(held), "sync: unlock of unlocked mutex "+name, site)
		if st.dead() {
			return
		}
		ex.store(st, wp, BV(32, 0))
	case "RLock":
		ex.blockIf(st, held, "self-deadlock: RLock of "+name+" while write-held by this thread", site)
		if st.dead() {
			return
		}
		// recursive read locking: sync.RWMutex blocks new readers once a writer waits, so a thread that re-acquires a
		// read lock it already holds deadlocks whenever a writer arrives in between (reported; execution continues)
		if c := And(st.pcTerm(), readers); !c.IsFalse() {
			ex.blocks = append(ex.blocks, Event{Kind: "recursive RLock of " + name + " (deadlocks when a writer waits in between)", PC: c, Pos: ex.pos(site), Case: ex.curCase, Msg: ex.heldLocks(st)})
		}
		ex.store(st, rp, Add(r, BV(32, 1)))
	case "RUnlock":
		ex.panicIf(st, Not(readers), "sync: RUnlock of unlocked RWMutex "+name, site)
		if st.dead() {
			return
		}
		ex.store(st, rp, Sub(r, BV(32, 1)))
	}
}

type LockEvent struct {
	Op, Lock, Pos, Held, Case string
	PC                        *Term
}

func (ex *Exec) lockHeldTerm(st *State, l *lockRef) *Term {
	defer func() { recover() }()
	var wp Value
	if l.rw {
		wp = extendPath(extendPath(l.ptr, PathEl{Field: 0}), PathEl{Field: 0})
		rp := extendPath(l.ptr, PathEl{Field: 2})
		w := ex.load(st, wp).(*Term)
		r := ex.load(st, rp).(*Term)
		return Or(Not(Eq(w, BV(32, 0))), Not(Eq(r, BV(32, 0))))
	}
	wp = extendPath(l.ptr, PathEl{Field: 0})
	return Not(Eq(ex.load(st, wp).(*Term), BV(32, 0)))
}

func (ex *Exec) anyLockHeld(st *State) *Term {
	r := False
	for _, k := range ex.lockOrder {
		l := ex.locks[k]
		if _, ok := st.heap.get(alts(l.ptr)[0].V.(*PtrC).Obj); !ok {
			continue
		}
		r = Or(r, ex.lockHeldTerm(st, l))
	}
	return r
}

func (ex *Exec) indexByte(st *State, s *SliceV, c *Term) *Term {
	bs := ex.byteTerms(st, s)
	r := BV(64, ^uint64(0))
	for i := len(bs) - 1; i >= 0; i-- {
		hit := And(Ult(i64(int64(i)), s.Len), Eq(bs[i], c))
		r = Ite(hit, i64(int64(i)), r)
	}
	return r
}

func (ex *Exec) errorStringType() types.Type {
	pkg := ex.prog.ImportedPackage("errors")
	if pkg == nil {
		panic(unsupported("package errors not loaded"))
	}
	return types.NewPointer(pkg.Type("errorString").Type())
}

func (ex *Exec) opaqueError(st *State, msg string) Value {
	t := ex.errorStringType()
	obj := ex.newObj(st, &Agg{E: []Value{ex.strConst(msg)}})
	return &IfaceC{Typ: t, V: &PtrC{Obj: obj}}
}

// sprintf evaluates natively when every operand is concrete, else returns an opaque constant string.
func (ex *Exec) sprintf(st *State, args []Value, site ssa.Instruction) Value {
	format, ok := ex.concreteString(st, args[0].(*SliceV))
	if !ok {
		return ex.strConst("<fmt.Sprintf>")
	}
	var goArgs []interface{}
	for _, a := range ex.elems(st, args[1].(*SliceV)) {
		ic, ok := a.(*IfaceC)
		if !ok || ic.Typ == nil {
			return ex.strConst("<fmt.Sprintf>")
		}
		switch v := ic.V.(type) {
		case *Term:
			if !v.IsConst() {
				return ex.strConst("<fmt.Sprintf>")
			}
			if v.W == 0 {
				goArgs = append(goArgs, v.Val != 0)
			} else if _, signed, _ := intWidth(ic.Typ); signed {
				goArgs = append(goArgs, v.ConstS())
			} else {
				goArgs = append(goArgs, v.ConstU())
			}
		case *SliceV:
			if !isString(ic.Typ) {
				return ex.strConst("<fmt.Sprintf>")
			}
			s, ok := ex.concreteString(st, v)
			if !ok {
				return ex.strConst("<fmt.Sprintf>")
			}
			goArgs = append(goArgs, s)
		default:
			return ex.strConst("<fmt.Sprintf>")
		}
	}
	return ex.strConst(fmt.Sprintf(format, goArgs...))
}

func (ex *Exec) bytesValue(st *State, b []byte) *SliceV {
	if b == nil {
		return &SliceV{Base: nilPtr, Off: i64(0), Len: i64(0), Cap: i64(0)}
	}
	es := make([]Value, len(b))
	for i, x := range b {
		es[i] = BV(8, uint64(x))
	}
	return ex.mkSliceFromElems(st, es)
}

func isNilFunc(v Value) bool {
	f, ok := v.(*FuncC)
	return ok && f.Fn == nil && f.Builtin == nil
}

type ufApp struct{ in, out *Term }

func (ex *Exec) ufBytes(st *State, args []Value, injective bool) Value {
	name := ex.argString(st, args[0])
	n := ex.argInt(args[1])
	// Each byte-string argument contributes its bytes. The function symbol is indexed by the total input width, so an
	// argument whose length is symbolic is case-split over the constants its length can take (same symbol and encoding as
	// a constant-length argument of that length); only when the length is not of that shape are the bytes beyond it masked
	// to zero and the length itself appended (a distinct symbol: such an application is unrelated to the others).
	type opt struct {
		c  *Term
		bs []*Term
	}
	var per [][]opt
	total := 1
	for _, a := range ex.elems(st, args[2].(*SliceV)) {
		s := a.(*SliceV)
		bs := ex.byteTerms(st, s)
		var os_ []opt
		if s.Len.IsConst() {
			os_ = []opt{{True, bs}}
		} else if c, ok := ex.uniqueConst(st, s.Len); ok && c.ConstU() <= uint64(len(bs)) {
			os_ = []opt{{True, bs[:c.ConstU()]}}
		} else if cs := constCands(s.Len, map[*Term][]*Term{}, 0); cs != nil && total*len(cs) <= 8 {
			for _, c := range cs {
				if c.ConstU() <= uint64(len(bs)) {
					os_ = append(os_, opt{Eq(s.Len, c), bs[:c.ConstU()]})
				}
			}
		}
		if os_ == nil {
			if os.Getenv("VS_DEBUG_UF") != "" {
				fmt.Fprintf(os.Stderr, "UF %s symbolic len: %s\n", name, s.Len.String())
			}
			var m []*Term
			for i, b := range bs {
				m = append(m, Ite(Ult(i64(int64(i)), s.Len), b, BV(8, 0)))
			}
			l := Extract(15, 0, s.Len)
			m = append(m, Extract(15, 8, l), Extract(7, 0, l))
			os_ = []opt{{True, m}}
		}
		total *= len(os_)
		per = append(per, os_)
	}
	var out *Term
	idx := make([]int, len(per))
	for {
		var in *Term
		cond := True
		for i := range per {
			o := per[i][idx[i]]
			cond = And(cond, o.c)
			for _, b := range o.bs {
				if in == nil {
					in = b
				} else {
					in = Concat(in, b)
				}
			}
		}
		if in == nil {
			in = BV(8, 0)
		}
		full := fmt.Sprintf("%s/%d", name, in.W)
		o := UF(full, 8*n, in)
		if injective {
			if ex.ufApps == nil {
				ex.ufApps = map[string][]ufApp{}
			}
			// injective over all inputs of the named function: applications at another input width have different
			// inputs by construction, so their outputs differ as well
			for _, p := range ex.ufApps[name] {
				if p.in.W != in.W {
					st.assume(Not(Eq(p.out, o)))
				} else if p.in != in {
					st.assume(Or(Eq(p.in, in), Not(Eq(p.out, o))))
				}
			}
			ex.ufApps[name] = append(ex.ufApps[name], ufApp{in, o})
		}
		if out == nil {
			out = o
		} else {
			out = Ite(cond, o, out)
		}
		k := 0
		for k < len(idx) {
			idx[k]++
			if idx[k] < len(per[k]) {
				break
			}
			idx[k] = 0
			k++
		}
		if k == len(idx) {
			break
		}
	}
	es := make([]Value, n)
	for i := 0; i < n; i++ {
		es[i] = Extract(8*(n-i)-1, 8*(n-i-1), out)
	}
	return ex.mkSliceFromElems(st, es)
}
