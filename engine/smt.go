package main

// SMT-LIB2 emission and solver drivers: one persistent incremental z3 (-in) per worker for
// feasibility queries, and one-shot runs (z3 / z3-new / cvc5) on standalone files for obligations.

import (
	"context"
	"bufio"
	"bytes"
	"fmt"
	"io"
	"math/big"
	"os"
	"os/exec"
	"strings"
	"sync"
	"sync/atomic"
	"time"
)

type SolverStats struct {
	Queries   int64
	ModelHits int64
	Sat       int64
	Unsat     int64
	Unknown   int64
	TimeNanos int64
}

var GStats SolverStats

var scopedDefs = os.Getenv("VS_SCOPED") != ""

var oneShotMode = os.Getenv("VS_ONESHOT") != ""

type Solver struct {
	cmd      *exec.Cmd
	in       io.WriteCloser
	out      *bufio.Reader
	emitted  map[int]bool
	declared map[string]bool
	cache    map[int]string // assertion term id → verdict (feasibility cache)
	log      io.Writer
	vars     []*Term
	models   []*cachedModel
	ModelHits int
}

type cachedModel struct {
	m    map[string]*big.Int
	memo map[int]*big.Int
}

// modelSat reports whether some cached model satisfies a (counterexample cache).
func (s *Solver) modelSat(a *Term) bool {
	for i := len(s.models) - 1; i >= 0; i-- {
		cm := s.models[i]
		if v := Eval(a, cm.m, cm.memo); v != nil && v.Sign() != 0 {
			return true
		}
	}
	return false
}

func NewSolver() (*Solver, error) {
	z3bin := "z3-new"
	if v := os.Getenv("VS_Z3"); v != "" {
		z3bin = v
	}
	cmd := exec.Command(z3bin, "-in", "-smt2")
	in, err := cmd.StdinPipe()
	if err != nil {
		return nil, err
	}
	outp, err := cmd.StdoutPipe()
	if err != nil {
		return nil, err
	}
	cmd.Stderr = os.Stderr
	if err := cmd.Start(); err != nil {
		return nil, err
	}
	s := &Solver{cmd: cmd, in: in, out: bufio.NewReaderSize(outp, 1<<20), emitted: map[int]bool{}, declared: map[string]bool{}, cache: map[int]string{}}
	return s, nil
}

func (s *Solver) Close() {
	if s == nil || s.cmd == nil {
		return
	}
	s.in.Close()
	s.cmd.Process.Kill()
	s.cmd.Wait()
	s.cmd = nil
}

func emitDefs(w io.Writer, order []*Term, emitted map[int]bool, declared map[string]bool, newVars *[]*Term) {
	for _, t := range order {
		if emitted[t.ID] {
			continue
		}
		emitted[t.ID] = true
		switch t.Op {
		case OpConst:
		case OpVar:
			if !declared["v:"+t.Name] {
				declared["v:"+t.Name] = true
				fmt.Fprintf(w, "(declare-const %s %s)\n", smtName(t.Name), sortStr(t.W))
				if newVars != nil {
					*newVars = append(*newVars, t)
				}
			}
		case OpUF:
			if !declared["u:"+t.Name] {
				declared["u:"+t.Name] = true
				d := TT.ufs[t.Name]
				var sb strings.Builder
				for _, a := range d.Args {
					sb.WriteString(sortStr(a) + " ")
				}
				fmt.Fprintf(w, "(declare-fun %s (%s) %s)\n", smtName("uf_"+t.Name), sb.String(), sortStr(d.Ret))
			}
			fmt.Fprintf(w, "(declare-const t%d %s)\n(assert (= t%d %s))\n", t.ID, sortStr(t.W), t.ID, t.body())
		default:
			// equational definitions (fresh constant + defining equation) instead of define-fun macros:
			// z3 4.8.12 expands 0-ary macros into trees, which is exponential on shared DAGs
			fmt.Fprintf(w, "(declare-const t%d %s)\n(assert (= t%d %s))\n", t.ID, sortStr(t.W), t.ID, t.body())
		}
	}
}

// conjuncts flattens nested conjunctions.
func conjuncts(t *Term, out []*Term) []*Term {
	for t.Op == OpAnd {
		out = conjuncts(t.Args[1], out)
		t = t.Args[0]
	}
	if !t.IsTrue() {
		out = append(out, t)
	}
	return out
}

var varsMemo sync.Map // term id → []int (sorted ids of free variables and UF applications' names hashed as negative ids)

func varsOf(t *Term) []int {
	if v, ok := varsMemo.Load(t.ID); ok {
		return v.([]int)
	}
	var r []int
	switch t.Op {
	case OpConst:
	case OpVar:
		r = []int{t.ID}
	default:
		// sorted sets, shared between terms: a term whose variables are those of its largest argument reuses that slice
		// (deep terms that depend on "everything so far" would otherwise cost memory quadratic in the run length)
		for _, a := range t.Args {
			va := varsOf(a)
			if len(va) > len(r) {
				r, va = va, r
			}
			if len(va) > 0 && !subsetInts(va, r) {
				r = unionInts(r, va)
			}
		}
		if t.Op == OpUF {
			// all applications of one UF are related through congruence
			h := 0
			for _, c := range t.Name {
				h = h*131 + int(c)
			}
			if h > 0 {
				h = -h
			}
			if x := []int{h - 1}; !subsetInts(x, r) {
				r = unionInts(r, x)
			}
		}
	}
	varsMemo.Store(t.ID, r)
	return r
}

func subsetInts(a, b []int) bool {
	if len(a) > len(b) {
		return false
	}
	if len(a) > 0 && len(b) > 0 && &a[0] == &b[0] {
		return true
	}
	j := 0
	for _, x := range a {
		for j < len(b) && b[j] < x {
			j++
		}
		if j == len(b) || b[j] != x {
			return false
		}
		j++
	}
	return true
}

func unionInts(a, b []int) []int {
	out := make([]int, 0, len(a)+len(b))
	i, j := 0, 0
	for i < len(a) && j < len(b) {
		switch {
		case a[i] < b[j]:
			out = append(out, a[i])
			i++
		case a[i] > b[j]:
			out = append(out, b[j])
			j++
		default:
			out = append(out, a[i])
			i++
			j++
		}
	}
	out = append(out, a[i:]...)
	return append(out, b[j:]...)
}

// sliceFor returns the conjuncts of pc that share variables (transitively) with c.
// Sound for infeasibility: if slice ∧ c is unsat then pc ∧ c is unsat.
func sliceFor(pcs []*Term, c *Term) []*Term {
	var cs []*Term
	for _, p := range pcs {
		cs = conjuncts(p, cs)
	}
	if len(cs) <= 1 {
		return cs
	}
	live := map[int]bool{}
	for _, v := range varsOf(c) {
		live[v] = true
	}
	used := make([]bool, len(cs))
	var out []*Term
	for changed := true; changed; {
		changed = false
		for i, cj := range cs {
			if used[i] {
				continue
			}
			vs := varsOf(cj)
			hit := len(vs) == 0
			for _, v := range vs {
				if live[v] {
					hit = true
					break
				}
			}
			if hit {
				used[i] = true
				out = append(out, cj)
				for _, v := range vs {
					if !live[v] {
						live[v] = true
						changed = true
					}
				}
			}
		}
	}
	return out
}

// Feasible decides (advisorily) whether pc ∧ c is satisfiable, using constraint independence and the model cache.
func (s *Solver) Feasible(timeoutMs int, pc []*Term, c *Term) string {
	if c.IsFalse() {
		return "unsat"
	}
	sl := sliceFor(pc, c)
	if os.Getenv("VS_SLOW") != "" {
		fmt.Fprintf(os.Stderr, "slice %d of %d conjuncts, vars(c)=%d\n", len(sl), len(pc), len(varsOf(c)))
	}
	return s.CheckSat(timeoutMs, append(sl, c)...)
}

// CheckSat asks the incremental solver whether the conjunction is satisfiable.
// Returns "sat", "unsat" or "unknown". Definitions are sent inside the push scope (cone of influence only).
func (s *Solver) CheckSat(timeoutMs int, as ...*Term) string {
	a := AndN(as...)
	if a.IsTrue() {
		return "sat"
	}
	if a.IsFalse() {
		return "unsat"
	}
	if r, ok := s.cache[a.ID]; ok {
		return r
	}
	if len(s.emitted) > 40000 {
		s.restart()
	}
	if s.modelSat(a) {
		s.ModelHits++
		atomic.AddInt64(&GStats.ModelHits, 1)
		s.cache[a.ID] = "sat"
		return "sat"
	}
	t0 := time.Now()
	var buf bytes.Buffer
	var vars []*Term
	if scopedDefs {
		fmt.Fprintf(&buf, "(set-option :timeout %d)\n(push)\n", timeoutMs)
		emitDefs(&buf, CollectDAG([]*Term{a}), map[int]bool{}, map[string]bool{}, &vars)
	} else {
		order := CollectDAG([]*Term{a})
		emitDefs(&buf, order, s.emitted, s.declared, nil)
		for _, t := range order {
			if t.Op == OpVar {
				vars = append(vars, t)
			}
		}
		fmt.Fprintf(&buf, "(set-option :timeout %d)\n(push)\n", timeoutMs)
	}
	fmt.Fprintf(&buf, "(assert %s)\n(check-sat)\n(echo \"<<model>>\")\n", ref(a))
	if len(vars) > 0 {
		buf.WriteString("(get-value (")
		for _, v := range vars {
			buf.WriteString(smtName(v.Name) + " ")
		}
		buf.WriteString("))\n")
	}
	buf.WriteString("(pop)\n(echo \"<<done>>\")\n")
	if s.log != nil {
		s.log.Write(buf.Bytes())
	}
	if _, err := s.in.Write(buf.Bytes()); err != nil {
		return "unknown"
	}
	res := "unknown"
	inModel := false
	var modelText strings.Builder
	for {
		line, err := s.out.ReadString('\n')
		if err != nil {
			res = "unknown"
			break
		}
		line = strings.TrimSpace(line)
		if line == "<<done>>" {
			break
		}
		if line == "<<model>>" {
			inModel = true
			continue
		}
		if inModel {
			modelText.WriteString(line + "\n")
			continue
		}
		switch {
		case line == "sat" || line == "unsat" || line == "unknown":
			if res != "error" {
				res = line
			}
		case strings.HasPrefix(line, "(error"):
			fmt.Fprintln(os.Stderr, "solver error:", line)
			res = "error"
		}
	}
	if res == "error" {
		res = "unknown"
	}
	if res == "sat" && !strings.Contains(modelText.String(), "(error") {
		cm := &cachedModel{m: map[string]*big.Int{}, memo: map[int]*big.Int{}}
		parseValues(modelText.String(), cm.m)
		s.models = append(s.models, cm)
		if len(s.models) > 8 {
			s.models = s.models[1:]
		}
	}
	atomic.AddInt64(&GStats.Queries, 1)
	atomic.AddInt64(&GStats.TimeNanos, int64(time.Since(t0)))
	if d := time.Since(t0); os.Getenv("VS_SLOW") != "" {
		if d > 300*time.Millisecond {
			os.WriteFile(fmt.Sprintf("/tmp/dump/inc-%d.smt2", a.ID), buf.Bytes(), 0o644)
		}
		fmt.Fprintf(os.Stderr, "query %.1fs verdict=%s defs=%d bytes root=t%d\n", d.Seconds(), res, buf.Len(), a.ID)
	}
	switch res {
	case "sat":
		atomic.AddInt64(&GStats.Sat, 1)
	case "unsat":
		atomic.AddInt64(&GStats.Unsat, 1)
	default:
		atomic.AddInt64(&GStats.Unknown, 1)
	}
	s.cache[a.ID] = res
	return res
}

// WriteQuery writes a standalone SMT-LIB2 file asserting the conjunction and asking for values of the given terms.
func WriteQuery(path string, logic string, assertion *Term, values []*Term) error {
	f, err := os.Create(path)
	if err != nil {
		return err
	}
	defer f.Close()
	w := bufio.NewWriter(f)
	defer w.Flush()
	if logic != "" {
		fmt.Fprintf(w, "(set-logic %s)\n", logic)
	}
	fmt.Fprintf(w, "(set-option :produce-models true)\n")
	roots := append([]*Term{assertion}, values...)
	emitDefs(w, CollectDAG(roots), map[int]bool{}, map[string]bool{}, nil)
	fmt.Fprintf(w, "(assert %s)\n(check-sat)\n", ref(assertion))
	return nil
}

type QueryResult struct {
	Verdict string // sat unsat unknown error
	Model   map[string]*big.Int
	Seconds float64
	Solver  string
	Raw     string
}

// RunOneShot runs one solver on a fresh process. values are terms whose model values are wanted (only read when sat).
// RunPortfolio runs the query on z3 5.x, z3 4.8 and cvc5 side by side and returns the first definite verdict (the others
// are killed); "unknown" only if none decides within the limit. Models are taken from whichever solver answered "sat".
func RunPortfolio(timeoutS int, assertion *Term, values []*Term, keepFile string) QueryResult {
	if assertion.IsFalse() {
		return QueryResult{Verdict: "unsat", Solver: "fold", Model: map[string]*big.Int{}}
	}
	ctx, cancel := context.WithCancel(context.Background())
	defer cancel()
	solvers := []string{"z3", "z3-old", "cvc5"}
	ch := make(chan QueryResult, len(solvers))
	for i, sv := range solvers {
		kf := ""
		if i == 0 {
			kf = keepFile
		}
		go func(sv, kf string) { ch <- runOneShotCtx(ctx, sv, timeoutS, assertion, values, kf) }(sv, kf)
	}
	last := QueryResult{Verdict: "unknown", Solver: "portfolio", Model: map[string]*big.Int{}}
	for range solvers {
		r := <-ch
		if r.Verdict == "sat" || r.Verdict == "unsat" {
			return r
		}
		if r.Seconds > last.Seconds {
			last.Seconds, last.Raw = r.Seconds, r.Raw
		}
	}
	return last
}

func RunOneShot(solver string, timeoutS int, assertion *Term, values []*Term, keepFile string) QueryResult {
	return runOneShotCtx(context.Background(), solver, timeoutS, assertion, values, keepFile)
}

func runOneShotCtx(ctx context.Context, solver string, timeoutS int, assertion *Term, values []*Term, keepFile string) QueryResult {
	t0 := time.Now()
	res := QueryResult{Verdict: "unknown", Solver: solver, Model: map[string]*big.Int{}}
	if assertion.IsFalse() {
		res.Verdict = "unsat"
		return res
	}
	var buf bytes.Buffer
	logic := ""
	if strings.HasPrefix(solver, "cvc5") {
		logic = "ALL"
	}
	if logic != "" {
		fmt.Fprintf(&buf, "(set-logic %s)\n", logic)
	}
	fmt.Fprintf(&buf, "(set-option :produce-models true)\n")
	roots := append([]*Term{assertion}, values...)
	emitDefs(&buf, CollectDAG(roots), map[int]bool{}, map[string]bool{}, nil)
	fmt.Fprintf(&buf, "(assert %s)\n(check-sat)\n", ref(assertion))
	// values requested in a second step only when sat: emit get-value eagerly (ignored/erroring on unsat is filtered)
	names := []string{}
	if len(values) > 0 {
		var sb strings.Builder
		sb.WriteString("(get-value (")
		for _, v := range values {
			if v.IsConst() {
				continue
			}
			sb.WriteString(ref(v) + " ")
			names = append(names, ref(v))
		}
		sb.WriteString("))\n")
		if len(names) > 0 {
			buf.WriteString(sb.String())
		}
	}
	if keepFile != "" {
		os.WriteFile(keepFile, buf.Bytes(), 0o644)
	}
	var cmd *exec.Cmd
	switch solver {
	case "z3":
		cmd = exec.CommandContext(ctx, "z3-new", "-in", "-smt2", fmt.Sprintf("-T:%d", timeoutS))
	case "z3-old":
		cmd = exec.CommandContext(ctx, "z3", "-in", "-smt2", fmt.Sprintf("-T:%d", timeoutS))
	case "z3-new":
		cmd = exec.CommandContext(ctx, "z3-new", "-in", "-smt2", fmt.Sprintf("-T:%d", timeoutS))
	case "cvc5":
		cmd = exec.CommandContext(ctx, "cvc5", "--lang=smt2", fmt.Sprintf("--tlimit=%d", timeoutS*1000))
	case "cvc5-int":
		cmd = exec.CommandContext(ctx, "cvc5", "--lang=smt2", "--solve-bv-as-int=sum", fmt.Sprintf("--tlimit=%d", timeoutS*1000))
	default:
		res.Verdict = "error"
		return res
	}
	cmd.Stdin = &buf
	out, _ := cmd.CombinedOutput()
	res.Raw = string(out)
	res.Seconds = time.Since(t0).Seconds()
	lines := strings.SplitN(string(out), "\n", 2)
	first := strings.TrimSpace(lines[0])
	switch first {
	case "sat", "unsat", "unknown":
		res.Verdict = first
	case "timeout":
		res.Verdict = "unknown"
	default:
		res.Verdict = "error"
	}
	if res.Verdict == "unsat" || res.Verdict == "unknown" {
		// an (error before the verdict makes it inconclusive; errors after an unsat come from get-value and are ignored
		return res
	}
	if res.Verdict == "sat" && len(lines) > 1 {
		if strings.Contains(lines[1], "(error") {
			res.Verdict = "error"
			return res
		}
		parseValues(lines[1], res.Model)
	}
	atomic.AddInt64(&GStats.Queries, 0)
	return res
}

// parseValues parses "((name value) (name value) ...)" where value is #x.., #b.., true, false.
func parseValues(s string, m map[string]*big.Int) {
	i := 0
	n := len(s)
	skipWS := func() {
		for i < n && (s[i] == ' ' || s[i] == '\n' || s[i] == '\t' || s[i] == '\r') {
			i++
		}
	}
	readTok := func() string {
		skipWS()
		if i >= n {
			return ""
		}
		if s[i] == '|' {
			j := strings.IndexByte(s[i+1:], '|')
			t := s[i+1 : i+1+j]
			i = i + 2 + j
			return t
		}
		st := i
		for i < n && !strings.ContainsRune(" \n\t\r()", rune(s[i])) {
			i++
		}
		return s[st:i]
	}
	for i < n {
		skipWS()
		if i >= n {
			break
		}
		if s[i] == '(' || s[i] == ')' {
			// pair start?
			if s[i] == '(' {
				i++
				skipWS()
				if i < n && s[i] == '(' {
					continue
				}
				name := readTok()
				skipWS()
				var val string
				if i < n && s[i] == '(' {
					// (_ bvN w)
					j := strings.IndexByte(s[i:], ')')
					inner := s[i+1 : i+j]
					i += j + 1
					parts := strings.Fields(inner)
					if len(parts) == 3 && strings.HasPrefix(parts[1], "bv") {
						v, _ := new(big.Int).SetString(parts[1][2:], 10)
						m[name] = v
					}
				} else {
					val = readTok()
					switch {
					case val == "true":
						m[name] = big.NewInt(1)
					case val == "false":
						m[name] = big.NewInt(0)
					case strings.HasPrefix(val, "#x"):
						v, _ := new(big.Int).SetString(val[2:], 16)
						m[name] = v
					case strings.HasPrefix(val, "#b"):
						v, _ := new(big.Int).SetString(val[2:], 2)
						m[name] = v
					}
				}
				// skip to closing paren
				skipWS()
				if i < n && s[i] == ')' {
					i++
				}
			} else {
				i++
			}
		} else {
			i++
		}
	}
}

func (s *Solver) getValueCmd() string {
	if len(s.vars) == 0 {
		return ""
	}
	var sb strings.Builder
	sb.WriteString("(get-value (")
	for _, v := range s.vars {
		sb.WriteString(smtName(v.Name) + " ")
	}
	sb.WriteString("))\n")
	return sb.String()
}

// restart replaces the z3 process (the accumulated definitions are dropped and re-emitted on demand).
func (s *Solver) restart() {
	n, err := NewSolver()
	if err != nil {
		return
	}
	s.in.Close()
	s.cmd.Process.Kill()
	s.cmd.Wait()
	s.cmd, s.in, s.out = n.cmd, n.in, n.out
	s.emitted = map[int]bool{}
	s.declared = map[string]bool{}
	s.vars = nil
}
