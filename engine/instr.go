package main

import (
	"fmt"
	"go/token"
	"go/types"
	"math"
	"strings"

	"golang.org/x/tools/go/ssa"
)

func (ex *Exec) instr(st *State, fr *Frame, instr ssa.Instruction) {
	switch in := instr.(type) {
	case *ssa.DebugRef:
	case *ssa.Alloc:
		t := in.Type().(*types.Pointer).Elem()
		fr.regs[in] = &PtrC{Obj: ex.newObj(st, zeroValue(t))}
	case *ssa.BinOp:
		fr.regs[in] = ex.binop(st, in, in.Op, ex.get(fr, in.X), ex.get(fr, in.Y), in.X.Type(), in.Y.Type())
	case *ssa.UnOp:
		fr.regs[in] = ex.unop(st, fr, in)
	case *ssa.Call:
		fr.regs[in] = ex.call(st, fr, &in.Call, in)
	case *ssa.ChangeType:
		fr.regs[in] = ex.get(fr, in.X)
	case *ssa.ChangeInterface:
		fr.regs[in] = ex.get(fr, in.X)
	case *ssa.Convert:
		fr.regs[in] = ex.convert(st, in, ex.get(fr, in.X), in.X.Type(), in.Type())
	case *ssa.MultiConvert:
		fr.regs[in] = ex.convert(st, in, ex.get(fr, in.X), in.X.Type(), in.Type())
	case *ssa.MakeInterface:
		fr.regs[in] = &IfaceC{Typ: in.X.Type(), V: ex.get(fr, in.X)}
	case *ssa.Extract:
		fr.regs[in] = ex.get(fr, in.Tuple).(*Agg).E[in.Index]
	case *ssa.Field:
		fr.regs[in] = ex.get(fr, in.X).(*Agg).E[in.Field]
	case *ssa.FieldAddr:
		p := ex.get(fr, in.X)
		ex.panicIf(st, nilCond(p), "nil dereference", in)
		if st.dead() {
			return
		}
		if ex.tracked != nil {
			ex.logAccess(st, fr, in, p)
		}
		fr.regs[in] = extendPath(dropNil(p), PathEl{Field: in.Field})
	case *ssa.Index:
		x := ex.get(fr, in.X)
		idx := ex.idx64(ex.get(fr, in.Index).(*Term), in.Index.Type())
		switch xv := x.(type) {
		case *Agg:
			ex.panicIf(st, Not(Ult(idx, i64(int64(len(xv.E))))), "index out of range", in)
			if st.dead() {
				return
			}
			fr.regs[in] = loadPath(xv, []PathEl{{Idx: idx}})
		case *SliceV: // string
			ex.panicIf(st, Not(Ult(idx, xv.Len)), "index out of range", in)
			if st.dead() {
				return
			}
			fr.regs[in] = ex.sliceGet(st, xv, idx)
		default:
			panic(fmt.Sprintf("Index on %T", x))
		}
	case *ssa.IndexAddr:
		x := ex.get(fr, in.X)
		idx := ex.idx64(ex.get(fr, in.Index).(*Term), in.Index.Type())
		switch xv := x.(type) {
		case *SliceV:
			ex.panicIf(st, Not(Ult(idx, xv.Len)), "index out of range", in)
			if st.dead() {
				return
			}
			fr.regs[in] = ex.elemPtr(xv, idx)
		default: // pointer to array
			ex.panicIf(st, nilCond(x), "nil dereference", in)
			n := in.X.Type().Underlying().(*types.Pointer).Elem().Underlying().(*types.Array).Len()
			ex.panicIf(st, Not(Ult(idx, i64(n))), "index out of range", in)
			if st.dead() {
				return
			}
			fr.regs[in] = extendPath(dropNil(x), PathEl{Idx: idx})
		}
	case *ssa.Lookup:
		x := ex.get(fr, in.X)
		if s, ok := x.(*SliceV); ok { // string index
			idx := ex.idx64(ex.get(fr, in.Index).(*Term), in.Index.Type())
			ex.panicIf(st, Not(Ult(idx, s.Len)), "index out of range", in)
			if st.dead() {
				return
			}
			fr.regs[in] = ex.sliceGet(st, s, idx)
			return
		}
		mt := in.X.Type().Underlying().(*types.Map)
		v, present := ex.mapRead(st, x, ex.get(fr, in.Index), mt)
		if in.CommaOk {
			fr.regs[in] = &Agg{E: []Value{v, present}}
		} else {
			fr.regs[in] = v
		}
	case *ssa.MapUpdate:
		m := ex.get(fr, in.Map)
		ex.panicIf(st, nilCond(m), "assignment to entry in nil map", in)
		if st.dead() {
			return
		}
		ex.mapWrite(st, m, ex.get(fr, in.Key), ex.get(fr, in.Value), True)
	case *ssa.MakeMap:
		mt := in.Type().Underlying().(*types.Map)
		fr.regs[in] = &PtrC{Obj: ex.newObj(st, &MapVal{KeyT: mt.Key(), ValT: mt.Elem()})}
	case *ssa.MakeChan:
		ct := in.Type().Underlying().(*types.Chan)
		sz := ex.get(fr, in.Size).(*Term)
		if !sz.IsConst() {
			panic(unsupported("make(chan) with symbolic capacity"))
		}
		n := int(sz.ConstU())
		if b, ok := ex.bounds["chancap"]; ok && n > b {
			n = b
		}
		cv := &ChanVal{Cap: n, ElemT: ct.Elem(), Len: i64(0), Closed: False, Buf: make([]Value, n)}
		for i := range cv.Buf {
			cv.Buf[i] = zeroValue(ct.Elem())
		}
		id := ex.newObj(st, cv)
		fr.regs[in] = &PtrC{Obj: id}
	case *ssa.MakeSlice:
		et := in.Type().Underlying().(*types.Slice).Elem()
		l := ex.idx64(ex.get(fr, in.Len).(*Term), in.Len.Type())
		c := ex.idx64(ex.get(fr, in.Cap).(*Term), in.Cap.Type())
		var n int
		if c.IsConst() {
			n = int(c.ConstU())
			if n > 1<<22 {
				panic(unsupported(fmt.Sprintf("make of %d elements at %s", n, ex.pos(in))))
			}
		} else {
			n = ex.bounds["maxmake"]
			if n == 0 {
				n = 64
			}
			ex.boundIf(st, Not(Ule(c, i64(int64(n)))), "make size exceeds bound maxmake", in)
		}
		ex.panicIf(st, Not(Ule(l, c)), "makeslice: len out of range", in)
		if st.dead() {
			return
		}
		z := zeroValue(et)
		es := make([]Value, n)
		for i := range es {
			es[i] = z
		}
		fr.regs[in] = &SliceV{Base: ex.newArray(st, es), Off: i64(0), Len: l, Cap: c}
	case *ssa.MakeClosure:
		f := &FuncC{Fn: in.Fn.(*ssa.Function), Bind: make([]Value, len(in.Bindings))}
		for i, b := range in.Bindings {
			f.Bind[i] = ex.get(fr, b)
		}
		fr.regs[in] = f
	case *ssa.Slice:
		fr.regs[in] = ex.sliceOp(st, fr, in)
	case *ssa.SliceToArrayPointer:
		s := ex.get(fr, in.X).(*SliceV)
		n := in.Type().(*types.Pointer).Elem().Underlying().(*types.Array).Len()
		ex.panicIf(st, Ult(s.Len, i64(n)), "slice to array pointer: length", in)
		if !s.Off.IsConst() || s.Off.ConstU() != 0 {
			panic(unsupported("SliceToArrayPointer with non-zero offset"))
		}
		fr.regs[in] = s.Base
	case *ssa.Store:
		p := ex.get(fr, in.Addr)
		ex.panicIf(st, nilCond(p), "nil dereference", in)
		if st.dead() {
			return
		}
		ex.store(st, p, ex.get(fr, in.Val))
	case *ssa.TypeAssert:
		fr.regs[in] = ex.typeAssert(st, in, ex.get(fr, in.X))
	case *ssa.Range:
		fr.regs[in] = ex.rangeInit(st, in, ex.get(fr, in.X))
	case *ssa.Next:
		fr.regs[in] = ex.rangeNext(st, in, ex.get(fr, in.Iter).(*RangeIter))
	case *ssa.Defer:
		d := deferred{g: True, call: &in.Call}
		d.fn, d.args = ex.prepareCall(st, fr, &in.Call)
		fr.defers = append(fr.defers, d)
	case *ssa.RunDefers:
		for i := len(fr.defers) - 1; i >= 0; i-- {
			d := fr.defers[i]
			if d.g.IsTrue() {
				ex.invoke(st, fr, d.fn, d.args, d.call, in)
			} else {
				ex.forkN(st, fr, []*Term{d.g, Not(d.g)}, func(k int, s2 *State, f2 *Frame) Value {
					if k == 0 {
						ex.invoke(s2, f2, d.fn, d.args, d.call, in)
					}
					return nil
				})
			}
			if st.dead() {
				return
			}
		}
		fr.defers = nil
	case *ssa.Go:
		fnv, _ := ex.prepareCall(st, fr, &in.Call)
		name := "?"
		if f, ok := fnv.(*FuncC); ok && f.Fn != nil {
			name = f.Fn.String()
		}
		ex.spawns = append(ex.spawns, name)
		if fnv != nil {
			_, gargs := ex.prepareCall(st, fr, &in.Call)
			ex.spawned = append(ex.spawned, spawnRec{fnv, gargs})
		}
	case *ssa.Send:
		ex.chanSend(st, fr, in, ex.get(fr, in.Chan), ex.get(fr, in.X))
	case *ssa.Select:
		fr.regs[in] = ex.selectOp(st, fr, in)
	default:
		panic(unsupported(fmt.Sprintf("instruction %T at %s", instr, ex.pos(instr))))
	}
}

// boundIf records that execution beyond a stated bound is cut (must be infeasible or is reported as inconclusive).
func (ex *Exec) boundIf(st *State, cond *Term, msg string, instr ssa.Instruction) {
	if cond.IsFalse() || st.dead() {
		return
	}
	ex.unwinds = append(ex.unwinds, Event{Kind: "bound", PC: And(st.pcTerm(), cond), Pos: ex.pos(instr), Msg: msg, Case: ex.curCase})
	st.assume(Not(cond))
}

func dropNil(p Value) Value {
	c, ok := p.(*Choice)
	if !ok {
		return p
	}
	var out []Alt
	for _, a := range c.Alts {
		if pc, ok := a.V.(*PtrC); ok && pc.Obj == 0 {
			continue
		}
		out = append(out, a)
	}
	if len(out) == 1 {
		return out[0].V
	}
	if len(out) == 0 {
		return p
	}
	return &Choice{Alts: out}
}

func (ex *Exec) idx64(t *Term, typ types.Type) *Term {
	if t.W == 64 {
		return t
	}
	_, signed, _ := intWidth(typ)
	if signed {
		return Sext(t, 64)
	}
	return Zext(t, 64)
}

func (ex *Exec) mapObj(st *State, m Value) []struct {
	g  *Term
	id int
	mv *MapVal
} {
	var out []struct {
		g  *Term
		id int
		mv *MapVal
	}
	for _, a := range alts(m) {
		pc := a.V.(*PtrC)
		if pc.Obj == 0 {
			continue
		}
		v, ok := st.heap.get(pc.Obj)
		if !ok {
			continue
		}
		out = append(out, struct {
			g  *Term
			id int
			mv *MapVal
		}{a.G, pc.Obj, v.(*MapVal)})
	}
	return out
}

func (ex *Exec) mapRead(st *State, m Value, key Value, mt *types.Map) (Value, *Term) {
	var v Value = zeroValue(mt.Elem())
	present := False
	for _, o := range ex.mapObj(st, m) {
		ov, op := ex.mapLookup(st, o.mv, key)
		v = mergeValue(o.g, ov, v)
		present = Ite(o.g, op, present)
	}
	return v, present
}

func (ex *Exec) mapWrite(st *State, m Value, key, val Value, present *Term) {
	for _, o := range ex.mapObj(st, m) {
		nm := ex.mapUpdate(st, o.mv, key, val, present)
		if !o.g.IsTrue() {
			nm = mergeMap(o.g, nm, o.mv)
		}
		st.heap.set(o.id, nm)
	}
}

func (ex *Exec) sliceOp(st *State, fr *Frame, in *ssa.Slice) Value {
	x := ex.get(fr, in.X)
	var base Value
	var off, ln, cp *Term
	isStr := false
	switch xv := x.(type) {
	case *SliceV:
		base, off, ln, cp = xv.Base, xv.Off, xv.Len, xv.Cap
		isStr = isString(in.X.Type())
		if isStr {
			cp = ln
		}
	default: // pointer to array
		ex.panicIf(st, nilCond(x), "nil dereference", in)
		n := in.X.Type().Underlying().(*types.Pointer).Elem().Underlying().(*types.Array).Len()
		base, off, ln, cp = dropNil(x), i64(0), i64(n), i64(n)
	}
	lo := i64(0)
	if in.Low != nil {
		lo = ex.idx64(ex.get(fr, in.Low).(*Term), in.Low.Type())
	}
	hi := ln
	if in.High != nil {
		hi = ex.idx64(ex.get(fr, in.High).(*Term), in.High.Type())
	}
	mx := cp
	if in.Max != nil {
		mx = ex.idx64(ex.get(fr, in.Max).(*Term), in.Max.Type())
		ex.panicIf(st, Not(Ule(mx, cp)), "slice bounds out of range (max)", in)
	}
	limit := cp
	if isStr {
		limit = ln
	}
	if in.Max != nil {
		limit = mx
	}
	ex.panicIf(st, Not(Ule(hi, limit)), "slice bounds out of range (high)", in)
	ex.panicIf(st, Not(Ule(lo, hi)), "slice bounds out of range (low)", in)
	if st.dead() {
		return nil
	}
	nl := Sub(hi, lo)
	nc := Sub(mx, lo)
	if isStr {
		nc = nl
	}
	if b, ok := base.(*PtrC); ok && b.Obj == 0 {
		return &SliceV{Base: base, Off: i64(0), Len: i64(0), Cap: i64(0)}
	}
	return &SliceV{Base: base, Off: Add(off, lo), Len: nl, Cap: nc}
}

func (ex *Exec) unop(st *State, fr *Frame, in *ssa.UnOp) Value {
	x := ex.get(fr, in.X)
	switch in.Op {
	case token.NOT:
		return Not(x.(*Term))
	case token.SUB:
		if f, ok := x.(*FloatV); ok {
			return fmap1(f, func(a float64) Value { return &FloatV{F: -a} })
		}
		return Un(OpBvNeg, x.(*Term))
	case token.XOR:
		return Un(OpBvNot, x.(*Term))
	case token.MUL:
		ex.panicIf(st, nilCond(x), "nil dereference", in)
		if st.dead() {
			return nil
		}
		return ex.loadTyped(st, x, in.Type())
	case token.ARROW:
		return ex.chanRecv(st, fr, in, x, in.CommaOk)
	}
	panic(unsupported("unop " + in.Op.String()))
}

func (ex *Exec) binop(st *State, site ssa.Instruction, op token.Token, x, y Value, xt, yt types.Type) Value {
	switch xv := x.(type) {
	case *Term:
		yv := y.(*Term)
		if xv.W == 0 {
			switch op {
			case token.EQL:
				return Eq(xv, yv)
			case token.NEQ:
				return Ne(xv, yv)
			case token.AND:
				return And(xv, yv)
			case token.OR:
				return Or(xv, yv)
			}
			panic(unsupported("bool binop " + op.String()))
		}
		_, signed, _ := intWidth(xt)
		switch op {
		case token.SHL, token.SHR:
			cnt := yv
			w := xv.W
			if cnt.W > w {
				big := Not(Ult(cnt, BV(cnt.W, uint64(w))))
				cnt = Ite(big, BV(w, uint64(w)), Extract(w-1, 0, cnt))
			} else if cnt.W < w {
				cnt = Zext(cnt, w)
			}
			if op == token.SHL {
				return Bin(OpBvShl, xv, cnt)
			}
			if signed {
				return Bin(OpBvAshr, xv, cnt)
			}
			return Bin(OpBvLshr, xv, cnt)
		}
		if xv.W != yv.W {
			panic(fmt.Sprintf("binop width mismatch %d %d at %s", xv.W, yv.W, ex.pos(site)))
		}
		switch op {
		case token.ADD:
			return Add(xv, yv)
		case token.SUB:
			return Sub(xv, yv)
		case token.MUL:
			return Mul(xv, yv)
		case token.QUO:
			ex.panicIf(st, Eq(yv, BV(yv.W, 0)), "integer divide by zero", site)
			if signed {
				return Bin(OpBvSdiv, xv, yv)
			}
			return Bin(OpBvUdiv, xv, yv)
		case token.REM:
			ex.panicIf(st, Eq(yv, BV(yv.W, 0)), "integer divide by zero", site)
			if signed {
				return Bin(OpBvSrem, xv, yv)
			}
			return Bin(OpBvUrem, xv, yv)
		case token.AND:
			return Bin(OpBvAnd, xv, yv)
		case token.OR:
			return Bin(OpBvOr, xv, yv)
		case token.XOR:
			return Bin(OpBvXor, xv, yv)
		case token.AND_NOT:
			return Bin(OpBvAnd, xv, Un(OpBvNot, yv))
		case token.EQL:
			return Eq(xv, yv)
		case token.NEQ:
			return Ne(xv, yv)
		case token.LSS:
			if signed {
				return Slt(xv, yv)
			}
			return Ult(xv, yv)
		case token.LEQ:
			if signed {
				return Sle(xv, yv)
			}
			return Ule(xv, yv)
		case token.GTR:
			if signed {
				return Slt(yv, xv)
			}
			return Ult(yv, xv)
		case token.GEQ:
			if signed {
				return Sle(yv, xv)
			}
			return Ule(yv, xv)
		}
	case *FloatV:
		yv := y.(*FloatV)
		is32 := false
		if b, ok := xt.Underlying().(*types.Basic); ok && b.Kind() == types.Float32 {
			is32 = true
		}
		r := func(f float64) Value {
			if is32 {
				f = float64(float32(f))
			}
			return &FloatV{F: f}
		}
		var fop func(p, q float64) Value
		switch op {
		case token.ADD:
			fop = func(p, q float64) Value { return r(p + q) }
		case token.SUB:
			fop = func(p, q float64) Value { return r(p - q) }
		case token.MUL:
			fop = func(p, q float64) Value { return r(p * q) }
		case token.QUO:
			fop = func(p, q float64) Value { return r(p / q) }
		case token.EQL:
			fop = func(p, q float64) Value { return Bool(p == q) }
		case token.NEQ:
			fop = func(p, q float64) Value { return Bool(p != q) }
		case token.LSS:
			fop = func(p, q float64) Value { return Bool(p < q) }
		case token.LEQ:
			fop = func(p, q float64) Value { return Bool(p <= q) }
		case token.GTR:
			fop = func(p, q float64) Value { return Bool(p > q) }
		case token.GEQ:
			fop = func(p, q float64) Value { return Bool(p >= q) }
		}
		if fop != nil {
			return fmap2(xv, yv, fop)
		}
	case *SliceV:
		yv := y.(*SliceV)
		if isString(xt) {
			switch op {
			case token.ADD:
				return ex.strConcat(st, xv, yv)
			case token.EQL:
				return ex.strEq(st, xv, yv)
			case token.NEQ:
				return Not(ex.strEq(st, xv, yv))
			case token.LSS:
				return ex.strLess(st, xv, yv)
			case token.GTR:
				return ex.strLess(st, yv, xv)
			case token.LEQ:
				return Not(ex.strLess(st, yv, xv))
			case token.GEQ:
				return Not(ex.strLess(st, xv, yv))
			}
		}
		// slice compared with nil
		switch op {
		case token.EQL, token.NEQ:
			var r *Term
			if isNilSliceConst(yv) {
				r = nilCond(xv.Base)
			} else if isNilSliceConst(xv) {
				r = nilCond(yv.Base)
			} else {
				panic(unsupported("slice comparison"))
			}
			if op == token.NEQ {
				r = Not(r)
			}
			return r
		}
	case *Agg:
		switch op {
		case token.EQL:
			return ex.valueEq(st, ex.mapKey(st, x), ex.mapKey(st, y))
		case token.NEQ:
			return Not(ex.valueEq(st, ex.mapKey(st, x), ex.mapKey(st, y)))
		}
	}
	if isRef(x) && isRef(y) {
		switch op {
		case token.EQL:
			return ex.valueEq(st, ex.mapKey(st, x), ex.mapKey(st, y))
		case token.NEQ:
			return Not(ex.valueEq(st, ex.mapKey(st, x), ex.mapKey(st, y)))
		}
	}
	panic(unsupported(fmt.Sprintf("binop %s on %T/%T at %s", op, x, y, ex.pos(site))))
}

func isNilSliceConst(s *SliceV) bool {
	b, ok := s.Base.(*PtrC)
	return ok && b.Obj == 0
}

func (ex *Exec) convert(st *State, site ssa.Instruction, x Value, from, to types.Type) Value {
	fu, tu := from.Underlying(), to.Underlying()
	if tw, _, ok := intWidth(to); ok {
		switch xv := x.(type) {
		case *Term:
			_, fsigned, _ := intWidth(from)
			if tw <= xv.W {
				return Extract(tw-1, 0, xv)
			}
			if fsigned {
				return Sext(xv, tw)
			}
			return Zext(xv, tw)
		case *FloatV:
			_, tsigned, _ := intWidth(to)
			return fmap1(xv, func(a float64) Value {
				if tsigned {
					return BV(tw, uint64(int64(a)))
				}
				return BV(tw, uint64(a))
			})
		case *PtrC, *Choice: // unsafe.Pointer → uintptr
			panic(unsupported("pointer to integer conversion"))
		}
	}
	if isFloat(to) {
		is32 := tu.(*types.Basic).Kind() == types.Float32
		var f float64
		switch xv := x.(type) {
		case *FloatV:
			return fmap1(xv, func(a float64) Value {
				if is32 {
					a = float64(float32(a))
				}
				return &FloatV{F: a}
			})
		case *Term:
			if !xv.IsConst() {
				_, fsigned, _ := intWidth(from)
				return intToFloatTree(xv, fsigned, is32)
			}
			_, fsigned, _ := intWidth(from)
			if fsigned {
				f = float64(xv.ConstS())
			} else {
				f = float64(xv.ConstU())
			}
		}
		if is32 {
			f = float64(float32(f))
		}
		return &FloatV{F: f}
	}
	if isString(to) {
		switch xv := x.(type) {
		case *SliceV:
			if isString(from) {
				return xv
			}
			if sl, ok := fu.(*types.Slice); ok {
				if b, ok := sl.Elem().Underlying().(*types.Basic); ok && b.Kind() == types.Uint8 {
					// []byte → string: copy
					es := ex.elems(st, xv)
					if len(es) == 0 {
						return &SliceV{Base: nilPtr, Off: i64(0), Len: i64(0), Cap: i64(0)}
					}
					return &SliceV{Base: ex.newArray(st, es), Off: i64(0), Len: xv.Len, Cap: xv.Len}
				}
				panic(unsupported("[]rune to string"))
			}
		case *Term: // rune → string
			if xv.IsConst() {
				return ex.strConst(string(rune(xv.ConstS())))
			}
			panic(unsupported("symbolic rune to string"))
		}
	}
	if sl, ok := tu.(*types.Slice); ok {
		if xv, ok := x.(*SliceV); ok {
			if isString(from) {
				if b, ok := sl.Elem().Underlying().(*types.Basic); ok && b.Kind() == types.Uint8 {
					es := ex.elems(st, xv)
					if len(es) == 0 {
						// empty, non-nil slice
						return &SliceV{Base: ex.newArray(st, []Value{}), Off: i64(0), Len: i64(0), Cap: i64(0)}
					}
					return &SliceV{Base: ex.newArray(st, es), Off: i64(0), Len: xv.Len, Cap: xv.Len}
				}
				panic(unsupported("string to []rune"))
			}
			return xv
		}
	}
	switch tu.(type) {
	case *types.Pointer:
		return x
	case *types.Basic:
		if tu.(*types.Basic).Kind() == types.UnsafePointer {
			return x
		}
	}
	panic(unsupported(fmt.Sprintf("convert %s → %s at %s", from, to, ex.pos(site))))
}

func (ex *Exec) typeAssert(st *State, in *ssa.TypeAssert, x Value) Value {
	at := in.AssertedType
	_, toIface := at.Underlying().(*types.Interface)
	var okC = False
	var val Value
	first := true
	z := zeroValue(at)
	as := alts(x)
	for i := len(as) - 1; i >= 0; i-- {
		a := as[i]
		ic := a.V.(*IfaceC)
		match := false
		var v Value = z
		if ic.Typ != nil {
			if toIface {
				if types.Implements(ic.Typ, at.Underlying().(*types.Interface)) {
					match = true
					v = ic
				}
			} else if types.Identical(ic.Typ, at) {
				match = true
				v = ic.V
			}
		}
		if match {
			okC = Or(okC, a.G)
		}
		if first {
			val = v
			first = false
		} else {
			val = mergeValue(a.G, v, val)
		}
	}
	if in.CommaOk {
		return &Agg{E: []Value{val, okC}}
	}
	ex.panicIf(st, Not(okC), "failed type assertion", in)
	return val
}

func (ex *Exec) rangeInit(st *State, in *ssa.Range, x Value) Value {
	it := &RangeIter{}
	if s, ok := x.(*SliceV); ok {
		it.Str = s
	} else {
		// map: snapshot (documented deviation: values are those at range start)
		// a guarded choice of maps (after a merge): the entries of every alternative, each present only under its guard
		for _, o := range ex.mapObj(st, x) {
			if st.known(o.g) == 0 {
				continue
			}
			ks, ps, vs := ex.mapSnapshot(st, o.mv)
			for i := range ks {
				it.Keys = append(it.Keys, ks[i])
				it.Pres = append(it.Pres, And(o.g, ps[i]))
				it.Vals = append(it.Vals, vs[i])
			}
		}
	}
	it.PosObj = ex.newObj(st, Value(i64(0)))
	return it
}

func (ex *Exec) rangeNext(st *State, in *ssa.Next, it *RangeIter) Value {
	if len(it.AltIt) > 0 {
		return ex.forkN(st, nil, it.AltG, func(k int, s2 *State, _ *Frame) Value {
			return ex.rangeNext(s2, in, it.AltIt[k])
		})
	}
	posV, _ := st.heap.get(it.PosObj)
	pos := posV.(*Term)
	if in.IsString {
		s := it.Str
		// ASCII-only decoding; a byte ≥ 0x80 at the current position is outside the supported fragment
		ok := Ult(pos, s.Len)
		n := ex.maxLen(st, s)
		var b Value = BV(8, 0)
		if n > 0 {
			if pos.IsConst() && int(pos.ConstU()) < n {
				b = ex.sliceGet(st, s, pos)
			} else if !pos.IsConst() {
				b = ex.sliceGet(st, s, pos)
			}
		}
		bt := b.(*Term)
		ex.boundIf(st, And(ok, Not(Ult(bt, BV(8, 0x80)))), "non-ASCII byte in range over string", in)
		st.heap.set(it.PosObj, Value(Ite(ok, Add(pos, i64(1)), pos)))
		return &Agg{E: []Value{ok, pos, Zext(bt, 32)}}
	}
	tup := in.Type().(*types.Tuple)
	kz, vz := zeroOrNil(tup.At(1).Type()), zeroOrNil(tup.At(2).Type())
	// first candidate index i >= pos that is present
	n := len(it.Keys)
	okT := False
	var k, v Value = kz, vz
	newPos := pos
	for i := n - 1; i >= 0; i-- {
		ii := i64(int64(i))
		cand := And(Ule(pos, ii), it.Pres[i])
		if cand.IsFalse() {
			continue
		}
		okT = Or(cand, okT)
		if kz != nil {
			k = mergeValue(cand, ex.keyToValue(st, it.Keys[i]), k)
		}
		if vz != nil {
			v = mergeValue(cand, it.Vals[i], v)
		}
		newPos = Ite(cand, i64(int64(i+1)), newPos)
	}
	st.heap.set(it.PosObj, Value(newPos))
	return &Agg{E: []Value{okT, k, v}}
}

func zeroOrNil(t types.Type) Value {
	if b, ok := t.(*types.Basic); ok && b.Kind() == types.Invalid {
		return nil
	}
	return zeroValue(t)
}

var _ = math.Inf

func (ex *Exec) loadTyped(st *State, p Value, t types.Type) (v Value) {
	defer func() {
		if e := recover(); e != nil {
			if e == errEmptyIndex {
				v = zeroValue(t)
				return
			}
			panic(e)
		}
	}()
	return ex.load(st, p)
}

// intToFloatTree converts an integer term to a float value when it is a tree of constants selected by boolean terms
// (ite with constant leaves); anything else becomes an opaque float (usable for logging only).
func intToFloatTree(t *Term, signed, is32 bool) *FloatV {
	if t.IsConst() {
		var f float64
		if signed {
			f = float64(t.ConstS())
		} else {
			f = float64(t.ConstU())
		}
		if is32 {
			f = float64(float32(f))
		}
		return &FloatV{F: f}
	}
	if t.Op == OpIte {
		a := intToFloatTree(t.Args[1], signed, is32)
		b := intToFloatTree(t.Args[2], signed, is32)
		if a.Opq || b.Opq {
			return opaqueFloat
		}
		return &FloatV{C: t.Args[0], A: a, B: b}
	}
	return opaqueFloat
}

func (ex *Exec) logAccess(st *State, fr *Frame, in *ssa.FieldAddr, p Value) {
	for _, a := range alts(p) {
		pc, ok := a.V.(*PtrC)
		if !ok || pc.Obj == 0 || len(pc.Path) != 0 {
			continue
		}
		name, ok := ex.tracked[pc.Obj]
		if !ok {
			continue
		}
		stt := in.X.Type().Underlying().(*types.Pointer).Elem().Underlying().(*types.Struct)
		fn := fr.fn.String()
		if strings.Contains(fn, ".vs") || strings.Contains(fn, ".VsH_") {
			continue // the harness's own set-up and oracle code
		}
		ex.accesses = append(ex.accesses, AccessEvent{Obj: name, Field: stt.Field(in.Field).Name(), Func: fn, Pos: ex.pos(in), Held: ex.heldLocks(st), Case: ex.curCase, PC: And(st.pcTerm(), a.G)})
	}
}
