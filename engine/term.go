package main

// Hash-consed term DAG over Bool and BitVec(n) with aggressive constant folding.
// Go integers are encoded as bit-vectors of their exact width (wrap-around semantics).

import (
	"fmt"
	"math/big"
	"strings"
	"sync"
)

type Op uint8

const (
	OpConst Op = iota // BV or Bool constant
	OpVar             // free variable
	OpNot             // bool not
	OpAnd             // bool and (n-ary kept binary)
	OpOr
	OpIte
	OpEq
	OpUlt
	OpUle
	OpSlt
	OpSle
	OpBvNot
	OpBvNeg
	OpBvAnd
	OpBvOr
	OpBvXor
	OpBvAdd
	OpBvSub
	OpBvMul
	OpBvUdiv
	OpBvUrem
	OpBvSdiv
	OpBvSrem
	OpBvShl
	OpBvLshr
	OpBvAshr
	OpConcat
	OpExtract // a=hi b=lo
	OpZext    // to width w
	OpSext
	OpUF // uninterpreted function application; name = function name
)

var opNames = map[Op]string{
	OpNot: "not", OpAnd: "and", OpOr: "or", OpIte: "ite", OpEq: "=",
	OpUlt: "bvult", OpUle: "bvule", OpSlt: "bvslt", OpSle: "bvsle",
	OpBvNot: "bvnot", OpBvNeg: "bvneg", OpBvAnd: "bvand", OpBvOr: "bvor", OpBvXor: "bvxor",
	OpBvAdd: "bvadd", OpBvSub: "bvsub", OpBvMul: "bvmul", OpBvUdiv: "bvudiv", OpBvUrem: "bvurem",
	OpBvSdiv: "bvsdiv", OpBvSrem: "bvsrem", OpBvShl: "bvshl", OpBvLshr: "bvlshr", OpBvAshr: "bvashr",
	OpConcat: "concat",
}

// Term is an immutable node. W == 0 means Bool.
type Term struct {
	Op   Op
	W    int
	Args []*Term
	Val  uint64   // constants with W<=64 (Bool: 0/1)
	Big  *big.Int // constants with W>64
	A, B int      // extract hi/lo
	Name string   // var / uf name
	ID   int
}

type termTable struct {
	mu    sync.Mutex
	m     map[string]*Term
	next  int
	ufs   map[string]*UFDecl
	vars  map[string]*Term
	fresh map[string]int
}

type UFDecl struct {
	Name string
	Args []int // widths (0=Bool)
	Ret  int
}

var TT = &termTable{m: map[string]*Term{}, ufs: map[string]*UFDecl{}, vars: map[string]*Term{}, fresh: map[string]int{}}

func (tt *termTable) intern(t *Term) *Term {
	var sb strings.Builder
	fmt.Fprintf(&sb, "%d:%d:", t.Op, t.W)
	switch t.Op {
	case OpConst:
		if t.Big != nil {
			sb.WriteString(t.Big.Text(16))
		} else {
			fmt.Fprintf(&sb, "%x", t.Val)
		}
	case OpVar, OpUF:
		sb.WriteString(t.Name)
	case OpExtract:
		fmt.Fprintf(&sb, "%d,%d", t.A, t.B)
	}
	for _, a := range t.Args {
		fmt.Fprintf(&sb, ",%d", a.ID)
	}
	k := sb.String()
	tt.mu.Lock()
	defer tt.mu.Unlock()
	if o, ok := tt.m[k]; ok {
		return o
	}
	tt.next++
	t.ID = tt.next
	tt.m[k] = t
	return t
}

func mask(w int) uint64 {
	if w >= 64 {
		return ^uint64(0)
	}
	return (uint64(1) << uint(w)) - 1
}

var (
	True  = TT.intern(&Term{Op: OpConst, W: 0, Val: 1})
	False = TT.intern(&Term{Op: OpConst, W: 0, Val: 0})
)

func Bool(b bool) *Term {
	if b {
		return True
	}
	return False
}

func BV(w int, v uint64) *Term {
	if w <= 0 {
		panic("BV width")
	}
	if w > 64 {
		return BVBig(w, new(big.Int).SetUint64(v))
	}
	return TT.intern(&Term{Op: OpConst, W: w, Val: v & mask(w)})
}

func BVBig(w int, v *big.Int) *Term {
	m := new(big.Int).Lsh(big.NewInt(1), uint(w))
	x := new(big.Int).Mod(v, m)
	if w <= 64 {
		return BV(w, x.Uint64())
	}
	return TT.intern(&Term{Op: OpConst, W: w, Big: x})
}

func Var(name string, w int) *Term {
	t := TT.intern(&Term{Op: OpVar, W: w, Name: name})
	TT.mu.Lock()
	TT.vars[name] = t
	TT.mu.Unlock()
	return t
}

// FreshVar returns a variable whose name is unique (base, base#1, ...).
func FreshVar(base string, w int) *Term {
	TT.mu.Lock()
	n := TT.fresh[base]
	TT.fresh[base] = n + 1
	TT.mu.Unlock()
	name := base
	if n > 0 {
		name = fmt.Sprintf("%s#%d", base, n)
	}
	return Var(name, w)
}

func (t *Term) IsConst() bool { return t.Op == OpConst }
func (t *Term) IsBool() bool  { return t.W == 0 }
func (t *Term) IsTrue() bool  { return t == True }
func (t *Term) IsFalse() bool { return t == False }

// ConstU returns the constant value (W<=64).
func (t *Term) ConstU() uint64 {
	if t.Big != nil {
		return t.Big.Uint64()
	}
	return t.Val
}

func (t *Term) ConstBig() *big.Int {
	if t.Big != nil {
		return new(big.Int).Set(t.Big)
	}
	return new(big.Int).SetUint64(t.Val)
}

// ConstS returns the sign-extended constant value.
func (t *Term) ConstS() int64 {
	v := t.Val
	if t.W < 64 && v&(1<<uint(t.W-1)) != 0 {
		v |= ^mask(t.W)
	}
	return int64(v)
}

func mk(op Op, w int, args ...*Term) *Term {
	return TT.intern(&Term{Op: op, W: w, Args: args})
}

func Not(a *Term) *Term {
	if a.W != 0 {
		panic("Not on non-bool")
	}
	if a.IsConst() {
		return Bool(a.Val == 0)
	}
	if a.Op == OpNot {
		return a.Args[0]
	}
	return mk(OpNot, 0, a)
}

func And(a, b *Term) *Term {
	if a.W != 0 || b.W != 0 {
		panic("And on non-bool")
	}
	if a.IsFalse() || b.IsFalse() {
		return False
	}
	if a.IsTrue() {
		return b
	}
	if b.IsTrue() {
		return a
	}
	if a == b {
		return a
	}
	if (a.Op == OpNot && a.Args[0] == b) || (b.Op == OpNot && b.Args[0] == a) {
		return False
	}
	// absorption: a ∧ (a ∧ x)
	if b.Op == OpAnd && (b.Args[0] == a || b.Args[1] == a) {
		return b
	}
	if a.Op == OpAnd && (a.Args[0] == b || a.Args[1] == b) {
		return a
	}
	if a.ID > b.ID {
		a, b = b, a
	}
	return mk(OpAnd, 0, a, b)
}

func Or(a, b *Term) *Term {
	if a.W != 0 || b.W != 0 {
		panic("Or on non-bool")
	}
	if a.IsTrue() || b.IsTrue() {
		return True
	}
	if a.IsFalse() {
		return b
	}
	if b.IsFalse() {
		return a
	}
	if a == b {
		return a
	}
	if (a.Op == OpNot && a.Args[0] == b) || (b.Op == OpNot && b.Args[0] == a) {
		return True
	}
	// (p ∧ c) ∨ (p ∧ ¬c) = p   (typical merge of path conditions)
	if a.Op == OpAnd && b.Op == OpAnd {
		for i := 0; i < 2; i++ {
			for j := 0; j < 2; j++ {
				if a.Args[i] == b.Args[j] {
					x, y := a.Args[1-i], b.Args[1-j]
					if (x.Op == OpNot && x.Args[0] == y) || (y.Op == OpNot && y.Args[0] == x) {
						return a.Args[i]
					}
				}
			}
		}
	}
	if a.ID > b.ID {
		a, b = b, a
	}
	return mk(OpOr, 0, a, b)
}

func AndN(ts ...*Term) *Term {
	r := True
	for _, t := range ts {
		r = And(r, t)
	}
	return r
}

func OrN(ts ...*Term) *Term {
	r := False
	for _, t := range ts {
		r = Or(r, t)
	}
	return r
}

func Implies(a, b *Term) *Term { return Or(Not(a), b) }

func Ite(c, a, b *Term) *Term {
	if c.W != 0 {
		panic("Ite cond non-bool")
	}
	if a.W != b.W {
		panic(fmt.Sprintf("Ite width mismatch %d %d", a.W, b.W))
	}
	if c.IsTrue() {
		return a
	}
	if c.IsFalse() {
		return b
	}
	if a == b {
		return a
	}
	if a.W == 0 {
		if a.IsTrue() && b.IsFalse() {
			return c
		}
		if a.IsFalse() && b.IsTrue() {
			return Not(c)
		}
		if a.IsTrue() {
			return Or(c, b)
		}
		if a.IsFalse() {
			return And(Not(c), b)
		}
		if b.IsTrue() {
			return Or(Not(c), a)
		}
		if b.IsFalse() {
			return And(c, a)
		}
	}
	if c.Op == OpNot {
		return Ite(c.Args[0], b, a)
	}
	// ite(c, ite(c, x, y), z) = ite(c, x, z)
	if a.Op == OpIte && a.Args[0] == c {
		a = a.Args[1]
	}
	if b.Op == OpIte && b.Args[0] == c {
		b = b.Args[2]
	}
	if a == b {
		return a
	}
	return mk(OpIte, a.W, c, a, b)
}

func Eq(a, b *Term) *Term {
	if a.W != b.W {
		panic(fmt.Sprintf("Eq width mismatch %d %d", a.W, b.W))
	}
	if a == b {
		return True
	}
	if a.IsConst() && b.IsConst() {
		if a.Big != nil || b.Big != nil {
			return Bool(a.ConstBig().Cmp(b.ConstBig()) == 0)
		}
		return Bool(a.Val == b.Val)
	}
	if a.W == 0 {
		if a.IsConst() {
			a, b = b, a
		}
		if b.IsTrue() {
			return a
		}
		if b.IsFalse() {
			return Not(a)
		}
	}
	// eq(ite(c,x,y), k) with constants: push inside
	if b.IsConst() && a.Op == OpIte {
		x, y := a.Args[1], a.Args[2]
		if x.IsConst() || y.IsConst() {
			return Ite(a.Args[0], Eq(x, b), Eq(y, b))
		}
	}
	if a.IsConst() && b.Op == OpIte {
		x, y := b.Args[1], b.Args[2]
		if x.IsConst() || y.IsConst() {
			return Ite(b.Args[0], Eq(x, a), Eq(y, a))
		}
	}
	// zext(x) == const
	if b.IsConst() && a.Op == OpZext && b.Big == nil {
		iw := a.Args[0].W
		if b.Val&^mask(iw) != 0 {
			return False
		}
		return Eq(a.Args[0], BV(iw, b.Val))
	}
	if a.IsConst() {
		a, b = b, a
	} else if !b.IsConst() && a.ID > b.ID {
		a, b = b, a
	}
	return mk(OpEq, 0, a, b)
}

func Ne(a, b *Term) *Term { return Not(Eq(a, b)) }

func cmpFold(op Op, a, b *Term) (*Term, bool) {
	if a.IsConst() && b.IsConst() && a.Big == nil && b.Big == nil {
		switch op {
		case OpUlt:
			return Bool(a.Val < b.Val), true
		case OpUle:
			return Bool(a.Val <= b.Val), true
		case OpSlt:
			return Bool(a.ConstS() < b.ConstS()), true
		case OpSle:
			return Bool(a.ConstS() <= b.ConstS()), true
		}
	}
	if a.IsConst() && b.IsConst() {
		x, y := a.ConstBig(), b.ConstBig()
		switch op {
		case OpUlt:
			return Bool(x.Cmp(y) < 0), true
		case OpUle:
			return Bool(x.Cmp(y) <= 0), true
		}
	}
	return nil, false
}

func Cmp(op Op, a, b *Term) *Term {
	if a.W != b.W || a.W == 0 {
		panic(fmt.Sprintf("Cmp width mismatch %d %d", a.W, b.W))
	}
	if r, ok := cmpFold(op, a, b); ok {
		return r
	}
	if a == b {
		return Bool(op == OpUle || op == OpSle)
	}
	if op == OpUlt && b.IsConst() && b.Big == nil && b.Val == 0 {
		return False
	}
	if op == OpUle && a.IsConst() && a.Big == nil && a.Val == 0 {
		return True
	}
	// comparisons with constant over ite with constant arms
	if b.IsConst() && a.Op == OpIte && (a.Args[1].IsConst() || a.Args[2].IsConst()) {
		return Ite(a.Args[0], Cmp(op, a.Args[1], b), Cmp(op, a.Args[2], b))
	}
	if a.IsConst() && b.Op == OpIte && (b.Args[1].IsConst() || b.Args[2].IsConst()) {
		return Ite(b.Args[0], Cmp(op, a, b.Args[1]), Cmp(op, a, b.Args[2]))
	}
	return mk(op, 0, a, b)
}

func Ult(a, b *Term) *Term { return Cmp(OpUlt, a, b) }
func Ule(a, b *Term) *Term { return Cmp(OpUle, a, b) }
func Slt(a, b *Term) *Term { return Cmp(OpSlt, a, b) }
func Sle(a, b *Term) *Term { return Cmp(OpSle, a, b) }

func bigMask(w int) *big.Int {
	m := new(big.Int).Lsh(big.NewInt(1), uint(w))
	return m.Sub(m, big.NewInt(1))
}

func toSigned(x *big.Int, w int) *big.Int {
	r := new(big.Int).Set(x)
	if r.Bit(w-1) == 1 {
		r.Sub(r, new(big.Int).Lsh(big.NewInt(1), uint(w)))
	}
	return r
}

func foldBin(op Op, w int, a, b *Term) (*Term, bool) {
	if !a.IsConst() || !b.IsConst() {
		return nil, false
	}
	if w <= 64 {
		x, y := a.Val, b.Val
		var r uint64
		switch op {
		case OpBvAnd:
			r = x & y
		case OpBvOr:
			r = x | y
		case OpBvXor:
			r = x ^ y
		case OpBvAdd:
			r = x + y
		case OpBvSub:
			r = x - y
		case OpBvMul:
			r = x * y
		case OpBvUdiv:
			if y == 0 {
				r = mask(w)
			} else {
				r = x / y
			}
		case OpBvUrem:
			if y == 0 {
				r = x
			} else {
				r = x % y
			}
		case OpBvSdiv:
			sx, sy := a.ConstS(), b.ConstS()
			if sy == 0 {
				if sx < 0 {
					r = 1
				} else {
					r = mask(w)
				}
			} else if sy == -1 {
				r = uint64(-sx)
			} else {
				r = uint64(sx / sy)
			}
		case OpBvSrem:
			sx, sy := a.ConstS(), b.ConstS()
			if sy == 0 {
				r = uint64(sx)
			} else if sy == -1 {
				r = 0
			} else {
				r = uint64(sx % sy)
			}
		case OpBvShl:
			if y >= uint64(w) {
				r = 0
			} else {
				r = x << y
			}
		case OpBvLshr:
			if y >= uint64(w) {
				r = 0
			} else {
				r = x >> y
			}
		case OpBvAshr:
			sx := a.ConstS()
			if y >= uint64(w) {
				if sx < 0 {
					r = mask(w)
				} else {
					r = 0
				}
			} else {
				r = uint64(sx >> y)
			}
		default:
			return nil, false
		}
		return BV(w, r), true
	}
	x, y := a.ConstBig(), b.ConstBig()
	r := new(big.Int)
	switch op {
	case OpBvAnd:
		r.And(x, y)
	case OpBvOr:
		r.Or(x, y)
	case OpBvXor:
		r.Xor(x, y)
	case OpBvAdd:
		r.Add(x, y)
	case OpBvSub:
		r.Sub(x, y)
	case OpBvMul:
		r.Mul(x, y)
	case OpBvUdiv:
		if y.Sign() == 0 {
			r = bigMask(w)
		} else {
			r.Div(x, y)
		}
	case OpBvUrem:
		if y.Sign() == 0 {
			r = x
		} else {
			r.Mod(x, y)
		}
	case OpBvShl:
		if y.Cmp(big.NewInt(int64(w))) >= 0 {
			r.SetInt64(0)
		} else {
			r.Lsh(x, uint(y.Uint64()))
		}
	case OpBvLshr:
		if y.Cmp(big.NewInt(int64(w))) >= 0 {
			r.SetInt64(0)
		} else {
			r.Rsh(x, uint(y.Uint64()))
		}
	default:
		return nil, false
	}
	return BVBig(w, r), true
}

func isZero(t *Term) bool {
	return t.IsConst() && ((t.Big == nil && t.Val == 0) || (t.Big != nil && t.Big.Sign() == 0))
}
func isOne(t *Term) bool { return t.IsConst() && t.Big == nil && t.Val == 1 }
func isAllOnes(t *Term) bool {
	return t.IsConst() && t.Big == nil && t.Val == mask(t.W)
}

func Bin(op Op, a, b *Term) *Term {
	if a.W != b.W || a.W == 0 {
		panic(fmt.Sprintf("Bin %v width mismatch %d %d", opNames[op], a.W, b.W))
	}
	w := a.W
	if r, ok := foldBin(op, w, a, b); ok {
		return r
	}
	switch op {
	case OpBvAdd:
		if isZero(a) {
			return b
		}
		if isZero(b) {
			return a
		}
		// (x + c1) + c2
		if b.IsConst() && a.Op == OpBvAdd && a.Args[1].IsConst() {
			return Bin(OpBvAdd, a.Args[0], Bin(OpBvAdd, a.Args[1], b))
		}
		if a.IsConst() {
			a, b = b, a
		}
	case OpBvSub:
		if isZero(b) {
			return a
		}
		if a == b {
			return BV(w, 0)
		}
		if b.IsConst() {
			return Bin(OpBvAdd, a, Un(OpBvNeg, b))
		}
	case OpBvMul:
		if isZero(a) || isZero(b) {
			return BV(w, 0)
		}
		if isOne(a) {
			return b
		}
		if isOne(b) {
			return a
		}
		if a.IsConst() {
			a, b = b, a
		}
	case OpBvAnd:
		if isZero(a) || isZero(b) {
			return BV(w, 0)
		}
		if isAllOnes(a) {
			return b
		}
		if isAllOnes(b) {
			return a
		}
		if a == b {
			return a
		}
	case OpBvOr:
		if isZero(a) {
			return b
		}
		if isZero(b) {
			return a
		}
		if a == b {
			return a
		}
	case OpBvXor:
		if isZero(a) {
			return b
		}
		if isZero(b) {
			return a
		}
		if a == b {
			return BV(w, 0)
		}
	case OpBvShl, OpBvLshr, OpBvAshr:
		if isZero(b) {
			return a
		}
		if isZero(a) {
			return a
		}
	case OpBvUdiv, OpBvSdiv:
		if isOne(b) {
			return a
		}
	}
	// distribute over ite with constant arms when the other operand is constant (keeps tables concrete)
	if b.IsConst() && a.Op == OpIte && a.Args[1].IsConst() && a.Args[2].IsConst() {
		return Ite(a.Args[0], Bin(op, a.Args[1], b), Bin(op, a.Args[2], b))
	}
	if a.IsConst() && b.Op == OpIte && b.Args[1].IsConst() && b.Args[2].IsConst() {
		return Ite(b.Args[0], Bin(op, a, b.Args[1]), Bin(op, a, b.Args[2]))
	}
	return mk(op, w, a, b)
}

func Un(op Op, a *Term) *Term {
	if a.W == 0 {
		panic("Un on bool")
	}
	if a.IsConst() {
		if a.W <= 64 {
			switch op {
			case OpBvNot:
				return BV(a.W, ^a.Val)
			case OpBvNeg:
				return BV(a.W, -a.Val)
			}
		} else {
			switch op {
			case OpBvNot:
				return BVBig(a.W, new(big.Int).Xor(a.ConstBig(), bigMask(a.W)))
			case OpBvNeg:
				return BVBig(a.W, new(big.Int).Neg(a.ConstBig()))
			}
		}
	}
	if a.Op == op {
		return a.Args[0]
	}
	return mk(op, a.W, a)
}

func Add(a, b *Term) *Term { return Bin(OpBvAdd, a, b) }
func Sub(a, b *Term) *Term { return Bin(OpBvSub, a, b) }
func Mul(a, b *Term) *Term { return Bin(OpBvMul, a, b) }

func Extract(hi, lo int, a *Term) *Term {
	if hi < lo || hi >= a.W || lo < 0 {
		panic(fmt.Sprintf("Extract [%d:%d] of width %d", hi, lo, a.W))
	}
	w := hi - lo + 1
	if w == a.W {
		return a
	}
	if a.IsConst() {
		if a.Big != nil {
			return BVBig(w, new(big.Int).Rsh(a.Big, uint(lo)))
		}
		return BV(w, a.Val>>uint(lo))
	}
	switch a.Op {
	case OpExtract:
		return Extract(hi+a.B, lo+a.B, a.Args[0])
	case OpZext:
		iw := a.Args[0].W
		if hi < iw {
			return Extract(hi, lo, a.Args[0])
		}
		if lo >= iw {
			return BV(w, 0)
		}
	case OpSext:
		iw := a.Args[0].W
		if hi < iw {
			return Extract(hi, lo, a.Args[0])
		}
	case OpConcat:
		lw := a.Args[1].W
		if hi < lw {
			return Extract(hi, lo, a.Args[1])
		}
		if lo >= lw {
			return Extract(hi-lw, lo-lw, a.Args[0])
		}
	case OpIte:
		if a.Args[1].IsConst() && a.Args[2].IsConst() {
			return Ite(a.Args[0], Extract(hi, lo, a.Args[1]), Extract(hi, lo, a.Args[2]))
		}
	case OpBvAnd, OpBvOr, OpBvXor:
		if lo == 0 || a.Args[0].IsConst() || a.Args[1].IsConst() {
			return Bin(a.Op, Extract(hi, lo, a.Args[0]), Extract(hi, lo, a.Args[1]))
		}
	case OpBvAdd, OpBvSub, OpBvMul:
		if lo == 0 {
			return Bin(a.Op, Extract(hi, 0, a.Args[0]), Extract(hi, 0, a.Args[1]))
		}
	}
	return TT.intern(&Term{Op: OpExtract, W: w, Args: []*Term{a}, A: hi, B: lo})
}

func Concat(a, b *Term) *Term {
	w := a.W + b.W
	if a.IsConst() && b.IsConst() {
		x := new(big.Int).Lsh(a.ConstBig(), uint(b.W))
		x.Or(x, b.ConstBig())
		return BVBig(w, x)
	}
	if isZero(a) {
		return Zext(b, w)
	}
	// concat(extract(h,m,x), extract(m-1,l,x)) = extract(h,l,x)
	if a.Op == OpExtract && b.Op == OpExtract && a.Args[0] == b.Args[0] && a.B == b.A+1 {
		return Extract(a.A, b.B, a.Args[0])
	}
	return mk(OpConcat, w, a, b)
}

func Zext(a *Term, w int) *Term {
	if w == a.W {
		return a
	}
	if w < a.W {
		return Extract(w-1, 0, a)
	}
	if a.IsConst() {
		return BVBig(w, a.ConstBig())
	}
	if a.Op == OpZext {
		return Zext(a.Args[0], w)
	}
	if a.Op == OpIte && a.Args[1].IsConst() && a.Args[2].IsConst() {
		return Ite(a.Args[0], Zext(a.Args[1], w), Zext(a.Args[2], w))
	}
	return mk(OpZext, w, a)
}

func Sext(a *Term, w int) *Term {
	if w == a.W {
		return a
	}
	if w < a.W {
		return Extract(w-1, 0, a)
	}
	if a.IsConst() {
		if a.Big != nil {
			return BVBig(w, toSigned(a.Big, a.W))
		}
		return BVBig(w, big.NewInt(a.ConstS()))
	}
	if a.Op == OpZext {
		return Zext(a.Args[0], w)
	}
	if a.Op == OpIte && a.Args[1].IsConst() && a.Args[2].IsConst() {
		return Ite(a.Args[0], Sext(a.Args[1], w), Sext(a.Args[2], w))
	}
	return mk(OpSext, w, a)
}

// UF applies an uninterpreted function (declared on first use).
func UF(name string, ret int, args ...*Term) *Term {
	TT.mu.Lock()
	d, ok := TT.ufs[name]
	if !ok {
		d = &UFDecl{Name: name, Ret: ret}
		for _, a := range args {
			d.Args = append(d.Args, a.W)
		}
		TT.ufs[name] = d
	}
	TT.mu.Unlock()
	if len(d.Args) != len(args) || d.Ret != ret {
		panic("UF " + name + ": inconsistent signature")
	}
	for i, a := range args {
		if a.W != d.Args[i] {
			panic(fmt.Sprintf("UF %s: arg %d width %d vs %d", name, i, a.W, d.Args[i]))
		}
	}
	return TT.intern(&Term{Op: OpUF, W: ret, Args: args, Name: name})
}

func sortStr(w int) string {
	if w == 0 {
		return "Bool"
	}
	return fmt.Sprintf("(_ BitVec %d)", w)
}

func smtName(s string) string {
	return "|" + strings.NewReplacer("|", "!", "\\", "!").Replace(s) + "|"
}

func (t *Term) constStr() string {
	if t.W == 0 {
		if t.Val != 0 {
			return "true"
		}
		return "false"
	}
	if t.W%4 == 0 {
		if t.Big != nil {
			return fmt.Sprintf("#x%0*s", t.W/4, t.Big.Text(16))
		}
		return fmt.Sprintf("#x%0*x", t.W/4, t.Val)
	}
	if t.Big != nil {
		return fmt.Sprintf("#b%0*s", t.W, t.Big.Text(2))
	}
	return fmt.Sprintf("#b%0*b", t.W, t.Val)
}

func ref(t *Term) string {
	switch t.Op {
	case OpConst:
		return t.constStr()
	case OpVar:
		return smtName(t.Name)
	}
	return fmt.Sprintf("t%d", t.ID)
}

// body renders the defining expression of a non-leaf term in terms of refs.
func (t *Term) body() string {
	var sb strings.Builder
	switch t.Op {
	case OpExtract:
		fmt.Fprintf(&sb, "((_ extract %d %d) %s)", t.A, t.B, ref(t.Args[0]))
	case OpZext:
		fmt.Fprintf(&sb, "((_ zero_extend %d) %s)", t.W-t.Args[0].W, ref(t.Args[0]))
	case OpSext:
		fmt.Fprintf(&sb, "((_ sign_extend %d) %s)", t.W-t.Args[0].W, ref(t.Args[0]))
	case OpUF:
		if len(t.Args) == 0 {
			return smtName("uf_" + t.Name)
		}
		sb.WriteString("(" + smtName("uf_"+t.Name))
		for _, a := range t.Args {
			sb.WriteString(" " + ref(a))
		}
		sb.WriteString(")")
	default:
		sb.WriteString("(" + opNames[t.Op])
		for _, a := range t.Args {
			sb.WriteString(" " + ref(a))
		}
		sb.WriteString(")")
	}
	return sb.String()
}

// String renders a small term for diagnostics.
func (t *Term) String() string {
	return t.str(4)
}

func (t *Term) str(depth int) string {
	switch t.Op {
	case OpConst:
		if t.W == 0 {
			return t.constStr()
		}
		if t.Big != nil {
			return "0x" + t.Big.Text(16)
		}
		return fmt.Sprintf("%d", t.Val)
	case OpVar:
		return t.Name
	}
	if depth == 0 {
		return fmt.Sprintf("t%d", t.ID)
	}
	var sb strings.Builder
	switch t.Op {
	case OpExtract:
		fmt.Fprintf(&sb, "(extract[%d:%d]", t.A, t.B)
	case OpZext:
		fmt.Fprintf(&sb, "(zext%d", t.W)
	case OpSext:
		fmt.Fprintf(&sb, "(sext%d", t.W)
	case OpUF:
		sb.WriteString("(" + t.Name)
	default:
		sb.WriteString("(" + opNames[t.Op])
	}
	for _, a := range t.Args {
		sb.WriteString(" " + a.str(depth-1))
	}
	sb.WriteString(")")
	return sb.String()
}

// Eval evaluates a term under a model (variables → values, missing = 0). UFs via ufEval.
func Eval(t *Term, model map[string]*big.Int, memo map[int]*big.Int) *big.Int {
	if v, ok := memo[t.ID]; ok {
		return v
	}
	var r *big.Int
	switch t.Op {
	case OpConst:
		r = t.ConstBig()
	case OpVar:
		if v, ok := model[t.Name]; ok {
			r = v
		} else {
			r = new(big.Int)
		}
	case OpUF:
		r = nil
	default:
		args := make([]*Term, len(t.Args))
		ok := true
		for i, a := range t.Args {
			v := Eval(a, model, memo)
			if v == nil {
				ok = false
				break
			}
			if a.W == 0 {
				args[i] = Bool(v.Sign() != 0)
			} else {
				args[i] = BVBig(a.W, v)
			}
		}
		if ok {
			c := rebuild(t, args)
			if c.IsConst() {
				r = c.ConstBig()
			}
		}
	}
	memo[t.ID] = r
	return r
}

func rebuild(t *Term, args []*Term) *Term {
	switch t.Op {
	case OpNot:
		return Not(args[0])
	case OpAnd:
		return And(args[0], args[1])
	case OpOr:
		return Or(args[0], args[1])
	case OpIte:
		return Ite(args[0], args[1], args[2])
	case OpEq:
		return Eq(args[0], args[1])
	case OpUlt, OpUle, OpSlt, OpSle:
		return Cmp(t.Op, args[0], args[1])
	case OpBvNot, OpBvNeg:
		return Un(t.Op, args[0])
	case OpConcat:
		return Concat(args[0], args[1])
	case OpExtract:
		return Extract(t.A, t.B, args[0])
	case OpZext:
		return Zext(args[0], t.W)
	case OpSext:
		return Sext(args[0], t.W)
	case OpUF:
		return UF(t.Name, t.W, args...)
	}
	return Bin(t.Op, args[0], args[1])
}

// Vars collects free variables and UF names reachable from the roots.
func CollectDAG(roots []*Term) (order []*Term) {
	seen := map[int]bool{}
	var visit func(t *Term)
	visit = func(t *Term) {
		if seen[t.ID] {
			return
		}
		seen[t.ID] = true
		for _, a := range t.Args {
			visit(a)
		}
		order = append(order, t)
	}
	for _, r := range roots {
		visit(r)
	}
	return
}
