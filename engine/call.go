package main

import (
	"fmt"
	"go/types"
	"strings"

	"golang.org/x/tools/go/ssa"
)

// prepareCall evaluates the callee and arguments of a call (receiver first for interface invokes).
func (ex *Exec) prepareCall(st *State, fr *Frame, c *ssa.CallCommon) (Value, []Value) {
	args := make([]Value, 0, len(c.Args)+1)
	var fnv Value
	if c.IsInvoke() {
		fnv = nil
		args = append(args, ex.get(fr, c.Value))
	} else {
		fnv = ex.get(fr, c.Value)
	}
	for _, a := range c.Args {
		args = append(args, ex.get(fr, a))
	}
	return fnv, args
}

func (ex *Exec) call(st *State, fr *Frame, c *ssa.CallCommon, site ssa.Instruction) Value {
	fnv, args := ex.prepareCall(st, fr, c)
	return ex.invoke(st, fr, fnv, args, c, site)
}

// invoke performs a call with evaluated callee/arguments.
func (ex *Exec) invoke(st *State, fr *Frame, fnv Value, args []Value, c *ssa.CallCommon, site ssa.Instruction) Value {
	depth := 0
	if fr != nil {
		depth = fr.depth + 1
	}
	if c.IsInvoke() {
		recv := args[0]
		ex.panicIf(st, nilCond(recv), "nil interface method call", site)
		if st.dead() {
			return nil
		}
		as := alts(recv)
		var guards []*Term
		var live []*IfaceC
		for _, a := range as {
			ic := a.V.(*IfaceC)
			if ic.Typ == nil {
				continue
			}
			guards = append(guards, a.G)
			live = append(live, ic)
		}
		if len(live) == 1 {
			guards[0] = True
		}
		return ex.forkN(st, fr, guards, func(i int, s2 *State, f2 *Frame) Value {
			ic := live[i]
			m := ex.lookupMethod(ic.Typ, c.Method)
			if m == nil {
				panic(unsupported(fmt.Sprintf("method %s not found on %s", c.Method.Name(), ic.Typ)))
			}
			a2 := append([]Value{ic.V}, args[1:]...)
			return ex.callFunction(s2, m, a2, site, depth)
		})
	}
	ex.panicIf(st, nilCond(fnv), "call of nil function", site)
	if st.dead() {
		return nil
	}
	as := alts(fnv)
	var guards []*Term
	var live []*FuncC
	for _, a := range as {
		f := a.V.(*FuncC)
		if f.Fn == nil && f.Builtin == nil {
			continue
		}
		guards = append(guards, a.G)
		live = append(live, f)
	}
	if len(live) == 1 {
		guards[0] = True
	}
	return ex.forkN(st, fr, guards, func(i int, s2 *State, f2 *Frame) Value {
		f := live[i]
		if f.Builtin != nil {
			return ex.builtin(s2, f2, f.Builtin, args, c, site)
		}
		a2 := args
		if len(f.Bind) > 0 {
			// closure: free variables are appended after params in our frame setup
			return ex.callClosure(s2, f, a2, site, depth)
		}
		return ex.callFunction(s2, f.Fn, a2, site, depth)
	})
}

func (ex *Exec) callClosure(st *State, f *FuncC, args []Value, site ssa.Instruction, depth int) Value {
	fn := f.Fn
	name := fn.String()
	if ov, ok := ex.overrides[name]; ok {
		return ex.callFunction(st, ov, args, site, depth)
	}
	if fn.Blocks == nil {
		panic(unsupported("closure without body " + name))
	}
	if _, ok := ex.funcs[name]; !ok {
		n := 0
		for _, b := range fn.Blocks {
			n += len(b.Instrs)
		}
		ex.funcs[name] = n
	}
	if depth > ex.maxDepth {
		panic(unsupported("call depth exceeded at " + name))
	}
	fr := &Frame{fn: fn, regs: make(map[ssa.Value]Value, 32), visits: map[*ssa.BasicBlock]int{}, depth: depth}
	for i, p := range fn.Params {
		if i < len(args) {
			fr.regs[p] = args[i]
		}
	}
	for i, fv := range fn.FreeVars {
		fr.regs[fv] = f.Bind[i]
	}
	ex.ctx = append(ex.ctx, name)
	ex.run(st, fr, fn.Blocks[0], nil)
	ex.ctx = ex.ctx[:len(ex.ctx)-1]
	return fr.result
}

func (ex *Exec) lookupMethod(t types.Type, m *types.Func) *ssa.Function {
	ms := ex.prog.MethodSets.MethodSet(t)
	sel := ms.Lookup(m.Pkg(), m.Name())
	if sel == nil {
		return nil
	}
	return ex.prog.MethodValue(sel)
}

func (ex *Exec) builtin(st *State, fr *Frame, b *ssa.Builtin, args []Value, c *ssa.CallCommon, site ssa.Instruction) Value {
	switch b.Name() {
	case "len":
		switch x := args[0].(type) {
		case *SliceV:
			return x.Len
		case *Agg:
			return i64(int64(len(x.E)))
		default:
			t := c.Args[0].Type().Underlying()
			switch tt := t.(type) {
			case *types.Map:
				n := i64(0)
				for _, o := range ex.mapObj(st, args[0]) {
					n = Ite(o.g, ex.mapLen(st, o.mv), n)
				}
				return n
			case *types.Chan:
				n := i64(0)
				for _, a := range alts(args[0]) {
					pc := a.V.(*PtrC)
					if pc.Obj == 0 {
						continue
					}
					cv, _ := st.heap.get(pc.Obj)
					n = Ite(a.G, cv.(*ChanVal).Len, n)
				}
				return n
			case *types.Pointer:
				return i64(tt.Elem().Underlying().(*types.Array).Len())
			}
		}
	case "cap":
		switch x := args[0].(type) {
		case *SliceV:
			return x.Cap
		case *Agg:
			return i64(int64(len(x.E)))
		default:
			if _, ok := c.Args[0].Type().Underlying().(*types.Chan); ok {
				n := i64(0)
				for _, a := range alts(args[0]) {
					pc := a.V.(*PtrC)
					if pc.Obj == 0 {
						continue
					}
					cv, _ := st.heap.get(pc.Obj)
					n = Ite(a.G, i64(int64(cv.(*ChanVal).Cap)), n)
				}
				return n
			}
		}
	case "append":
		s := args[0].(*SliceV)
		t := args[1].(*SliceV)
		et := c.Args[0].Type().Underlying().(*types.Slice).Elem()
		return ex.appendSlice(st, s, t, et)
	case "copy":
		return ex.copySlice(st, args[0].(*SliceV), args[1].(*SliceV))
	case "delete":
		ex.mapWrite(st, args[0], args[1], nil, False)
		return nil
	case "panic":
		ex.panics = append(ex.panics, Event{Kind: "explicit panic", PC: st.pcTerm(), Pos: ex.pos(site), Case: ex.curCase})
		st.kill()
		return nil
	case "print", "println":
		return nil
	case "recover":
		return &IfaceC{}
	case "close":
		ex.chanClose(st, site, args[0])
		return nil
	case "min", "max":
		r := args[0].(*Term)
		_, signed, _ := intWidth(c.Args[0].Type())
		for _, a := range args[1:] {
			t := a.(*Term)
			var lt *Term
			if signed {
				lt = Slt(t, r)
			} else {
				lt = Ult(t, r)
			}
			if b.Name() == "max" {
				if signed {
					lt = Slt(r, t)
				} else {
					lt = Ult(r, t)
				}
			}
			r = Ite(lt, t, r)
		}
		return r
	case "ssa:wrapnilchk":
		ex.panicIf(st, nilCond(args[0]), "nil dereference (wrapnilchk)", site)
		return args[0]
	}
	panic(unsupported("builtin " + b.Name() + " at " + ex.pos(site)))
}

// ---------------------------------------------------------------- channels (bounded FIFO, sequential semantics)

func (ex *Exec) chanObjs(st *State, c Value) []struct {
	g  *Term
	id int
	cv *ChanVal
} {
	var out []struct {
		g  *Term
		id int
		cv *ChanVal
	}
	for _, a := range alts(c) {
		pc := a.V.(*PtrC)
		if pc.Obj == 0 {
			continue
		}
		v, ok := st.heap.get(pc.Obj)
		if !ok {
			continue
		}
		out = append(out, struct {
			g  *Term
			id int
			cv *ChanVal
		}{a.G, pc.Obj, v.(*ChanVal)})
	}
	return out
}

// blockIf records a would-block event (the operation cannot proceed in the sequentialised execution).
func (ex *Exec) blockIf(st *State, cond *Term, kind string, site ssa.Instruction) {
	if cond.IsFalse() || st.dead() {
		return
	}
	ex.blocks = append(ex.blocks, Event{Kind: kind, PC: And(st.pcTerm(), cond), Pos: ex.pos(site), Case: ex.curCase, Msg: ex.heldLocks(st)})
	if n := len(ex.rub); n > 0 {
		// run-until-blocked: the blocked part of the state is parked (snapshot) and resumes after vsRunUntilBlocked
		r := ex.rub[n-1]
		sn := &rubSnap{heap: flattenHeap(st.heap, r.base), pcs: append(append([]*Term{}, st.pcs...), cond)}
		r.snaps = append(r.snaps, sn)
	}
	st.assume(Not(cond))
}

func chanPush(cv *ChanVal, x Value, g *Term) *ChanVal {
	r := &ChanVal{Cap: cv.Cap, ElemT: cv.ElemT, Closed: cv.Closed, Buf: make([]Value, len(cv.Buf))}
	for i := range cv.Buf {
		r.Buf[i] = mergeValue(And(g, Eq(cv.Len, i64(int64(i)))), x, cv.Buf[i])
	}
	r.Len = Ite(g, Add(cv.Len, i64(1)), cv.Len)
	return r
}

func chanPop(cv *ChanVal, g *Term) (*ChanVal, Value) {
	r := &ChanVal{Cap: cv.Cap, ElemT: cv.ElemT, Closed: cv.Closed, Buf: make([]Value, len(cv.Buf))}
	var head Value = zeroValue(cv.ElemT)
	if len(cv.Buf) > 0 {
		head = cv.Buf[0]
	}
	for i := range cv.Buf {
		var nxt Value = zeroValue(cv.ElemT)
		if i+1 < len(cv.Buf) {
			nxt = cv.Buf[i+1]
		}
		r.Buf[i] = mergeValue(g, nxt, cv.Buf[i])
	}
	r.Len = Ite(g, Sub(cv.Len, i64(1)), cv.Len)
	return r, head
}

func (ex *Exec) chanSend(st *State, fr *Frame, site ssa.Instruction, c Value, x Value) {
	ex.blockIf(st, nilCond(c), "send on nil channel blocks forever", site)
	for _, o := range ex.chanObjs(st, c) {
		ex.panicIf(st, And(o.g, o.cv.Closed), "send on closed channel", site)
		full := Not(Ult(o.cv.Len, i64(int64(o.cv.Cap))))
		ex.blockIf(st, And(o.g, full), "send would block (buffer full, no receiver in sequentialised run)", site)
		if st.dead() {
			return
		}
		st.heap.set(o.id, chanPush(o.cv, x, o.g))
	}
}

func (ex *Exec) chanRecv(st *State, fr *Frame, site ssa.Instruction, c Value, commaOk bool) Value {
	ex.blockIf(st, nilCond(c), "receive from nil channel blocks forever", site)
	var val Value
	okT := False
	first := true
	for _, o := range ex.chanObjs(st, c) {
		empty := Eq(o.cv.Len, i64(0))
		ex.blockIf(st, AndN(o.g, empty, Not(o.cv.Closed)), "receive would block (empty channel)", site)
		if st.dead() {
			return nil
		}
		ncv, head := chanPop(o.cv, And(o.g, Not(empty)))
		st.heap.set(o.id, ncv)
		v := mergeValue(empty, zeroValue(o.cv.ElemT), head)
		if first {
			val = v
			okT = Not(empty)
			first = false
		} else {
			val = mergeValue(o.g, v, val)
			okT = Ite(o.g, Not(empty), okT)
		}
	}
	if first {
		st.kill()
		return nil
	}
	if commaOk {
		return &Agg{E: []Value{val, okT}}
	}
	return val
}

func (ex *Exec) chanClose(st *State, site ssa.Instruction, c Value) {
	ex.panicIf(st, nilCond(c), "close of nil channel", site)
	for _, o := range ex.chanObjs(st, c) {
		ex.panicIf(st, And(o.g, o.cv.Closed), "close of closed channel", site)
		if st.dead() {
			return
		}
		r := *o.cv
		r.Closed = Or(o.cv.Closed, o.g)
		st.heap.set(o.id, &r)
	}
}

// selectOp: the first ready case in source order is taken (a deterministic refinement of Go's random choice,
// except that harnesses can permute through vsFork); blocking select with no ready case is a would-block event.
func (ex *Exec) selectOp(st *State, fr *Frame, in *ssa.Select) Value {
	n := len(in.States)
	ready := make([]*Term, n)
	for i, s := range in.States {
		c := ex.get(fr, s.Chan)
		r := False
		for _, o := range ex.chanObjs(st, c) {
			if s.Dir == types.SendOnly {
				r = Or(r, And(o.g, Or(o.cv.Closed, Ult(o.cv.Len, i64(int64(o.cv.Cap))))))
			} else {
				r = Or(r, And(o.g, Or(o.cv.Closed, Not(Eq(o.cv.Len, i64(0))))))
			}
		}
		ready[i] = r
	}
	// choose: first ready
	chosen := make([]*Term, n)
	none := True
	for i := 0; i < n; i++ {
		chosen[i] = And(none, ready[i])
		none = And(none, Not(ready[i]))
	}
	if in.Blocking {
		ex.blockIf(st, none, "select would block (no ready case)", in)
		if st.dead() {
			return nil
		}
	}
	// result tuple: (index int, recvOk bool, r_0 T_0, ... r_n-1)
	tup := in.Type().(*types.Tuple)
	res := &Agg{E: make([]Value, tup.Len())}
	idx := BV(64, ^uint64(0))
	for i := n - 1; i >= 0; i-- {
		idx = Ite(chosen[i], i64(int64(i)), idx)
	}
	res.E[0] = idx
	recvOk := False
	ri := 2
	for i, s := range in.States {
		c := ex.get(fr, s.Chan)
		if s.Dir == types.SendOnly {
			x := ex.get(fr, s.Send)
			for _, o := range ex.chanObjs(st, c) {
				g := And(chosen[i], o.g)
				ex.panicIf(st, And(g, o.cv.Closed), "send on closed channel", in)
				st.heap.set(o.id, chanPush(o.cv, x, g))
			}
			continue
		}
		var val Value = zeroValue(tup.At(ri).Type())
		for _, o := range ex.chanObjs(st, c) {
			g := And(chosen[i], o.g)
			empty := Eq(o.cv.Len, i64(0))
			ncv, head := chanPop(o.cv, And(g, Not(empty)))
			st.heap.set(o.id, ncv)
			val = mergeValue(And(g, Not(empty)), head, val)
			recvOk = Or(recvOk, And(g, Not(empty)))
		}
		res.E[ri] = val
		ri++
	}
	res.E[1] = recvOk
	return res
}

func (ex *Exec) heldLocks(st *State) string {
	s := ""
	for _, k := range ex.lockOrder {
		l := ex.locks[k]
		if _, ok := st.heap.get(alts(l.ptr)[0].V.(*PtrC).Obj); !ok {
			continue
		}
		t := ex.lockHeldTerm(st, l)
		if t == nil || t.IsFalse() {
			continue
		}
		if t.IsTrue() {
			s += l.name + " "
		} else {
			s += l.name + "? "
		}
	}
	return strings.TrimSpace(s)
}

// ---------------------------------------------------------------- run-until-blocked

type rubSnap struct {
	heap map[int]Value
	pcs  []*Term
}

type rubCtx struct {
	base  *Heap // fresh layer pushed at the call; everything the callee writes lives in it or in descendants
	n0    int
	snaps []*rubSnap
}

// flattenHeap collects the newest value of every object written in the layers from h up to and including base.
func flattenHeap(h *Heap, base *Heap) map[int]Value {
	out := map[int]Value{}
	for x := h; x != nil; x = x.parent {
		for k, v := range x.m {
			if _, ok := out[k]; !ok {
				out[k] = v
			}
		}
		if x == base {
			break
		}
	}
	return out
}

// runUntilBlocked runs f; paths that block (channel operation, lock, select that cannot proceed in the sequentialised
// execution) are parked at the blocking point; afterwards execution continues from the merge of the normally
// returned state and all parked states. Returns the condition "f returned normally".
func (ex *Exec) runUntilBlocked(st *State, f Value, site ssa.Instruction) *Term {
	return ex.runUntilBlockedArgs(st, f, nil, site)
}

func (ex *Exec) runUntilBlockedArgs(st *State, f Value, fargs []Value, site ssa.Instruction) *Term {
	parent := st.heap
	base := newHeap(parent)
	st.heap = base
	ctx := &rubCtx{base: base, n0: len(st.pcs)}
	ex.rub = append(ex.rub, ctx)
	ex.invokeFuncValue(st, f, fargs, site)
	ex.rub = ex.rub[:len(ex.rub)-1]
	type part struct {
		g    *Term
		heap map[int]Value
	}
	var parts []part
	n0 := ctx.n0
	returned := False
	if !st.dead() {
		k := n0
		if k > len(st.pcs) {
			k = len(st.pcs)
		}
		g := AndN(st.pcs[k:]...)
		returned = g
		parts = append(parts, part{g, flattenHeap(st.heap, base)})
	}
	for _, sn := range ctx.snaps {
		k := n0
		if k > len(sn.pcs) {
			k = len(sn.pcs)
		}
		parts = append(parts, part{AndN(sn.pcs[k:]...), sn.heap})
	}
	// rebuild the state on top of the parent heap
	nh := newHeap(parent)
	keys := map[int]bool{}
	for _, p := range parts {
		for k := range p.heap {
			keys[k] = true
		}
	}
	for k := range keys {
		var acc Value
		if v, ok := parent.get(k); ok {
			acc = v
		}
		for i := len(parts) - 1; i >= 0; i-- {
			v, ok := parts[i].heap[k]
			if !ok {
				continue
			}
			if acc == nil {
				acc = v
			} else {
				acc = mergeValue(parts[i].g, v, acc)
			}
		}
		nh.m[k] = acc
	}
	if len(parts) == 0 {
		st.kill()
		return False
	}
	var basePcs []*Term
	if n0 <= len(st.pcs) && !st.dead() {
		basePcs = st.pcs[:n0:n0]
	} else if len(ctx.snaps) > 0 {
		basePcs = ctx.snaps[0].pcs[:n0:n0]
	}
	disj := False
	for _, p := range parts {
		disj = Or(disj, p.g)
	}
	st.isDead = false
	st.pcs = basePcs
	st.pcMemo = nil
	st.heap = nh
	st.assume(disj)
	return returned
}
